#!/usr/bin/env python3
"""Confirm every independently written property-breaking change on /repo and store it under /verif/seeded/<id>/.

usage: python3 tools/keepseeds.py /tmp/seed          (expects out_<PROP>/mutN.patch, demoN.py, noteN.txt)
For each change: tools/seedcheck.sh (scratch worktree: suite passes, demo fails with / passes without the patch; then
the patch is applied to /repo, the property's quick check is run, and /repo is restored)."""
import json
import os
import re
import shutil
import subprocess
import sys

SRC = sys.argv[1]
OFFSET = int(sys.argv[2]) if len(sys.argv) > 2 else 0  # round 2 changes are numbered 4..6
ONLY = sys.argv[3:]  # optional: restrict to these properties (parallel lanes)
# KEEP_SCRATCH=1: run the checks against the scratch worktree (tools/seedscratch.sh) instead of applying to /repo
TOOL = "seedscratch.sh" if os.environ.get("KEEP_SCRATCH") else "seedcheck.sh"
VERIF = os.path.dirname(os.path.dirname(os.path.abspath(__file__)))
# changes the checks missed when first run against them, and what was strengthened (DESIGN.md section 10)
MISSED = {
    "C01-2": "space C had no `any` proposition on a variable that can be disabled; added one",
    "C02-2": "no input variable had lock-range on; added lock-range variants of the base engines",
    "C03-1": "degenerate vertical edges (start == end) of SShape/ZShape/PiShape were not in the parameter alphabet; added",
    "C04-1": "no operand closer to 1 than 2^-8; added the edge lattice next to 0, 1/2 and 1",
    "C04-2": "no operand below 2^-8 (needs < 2^-53); added the edge lattice incl. subnormals",
    "C04-3": "no pair with a+b in [0.999, 1); added the edge lattice",
    "C08-3": "no degree in (0, 1e-3]; added 2^-12 to the degree and threshold alphabets",
    "C10-1": "every call used a fresh defuzzifier; added a long-lived Automatic instance alternating between kinds",
    "C12-3": "no infinite defuzzified value; added +inf to the value alphabet (both drivers)",
    "C13-2": "flags were always restored before the next operation; added a persistent flip of an output's enabled flag",
    "C13-3": "all engines used General and only outputs were compared; added a First-activated engine and per-rule state comparison",
    "C14-1": "no Function/Linear term inside an input variable; added to the deviations",
    "C14-2": "no rule weight needing more than 3 decimals, and weights were compared within atol; added 0.12346, tightened",
    "C15-2": "no term height above 1; added heights 2.0, 1.5, 1.0009",
    "C15-3": "no container larger than reprlib's defaults; added size deviations and large standalone components",
    "C16-1": "texts were only loaded into fresh Rule objects; added loading into an already loaded rule",
    "C19-1": "`and`/`or` never occurred in the same antecedent; added the `mixed` usage",
    "C19-3": "no disabled rule; added usages where the connective only occurs in a disabled rule",
    # ---- second round (ids 4..6) ----
    "C01-6": "quick tier had no 3-leaf antecedent (an `and` inside the right operand of `or`); added a reduced 3-leaf slice",
    "C02-4": "no input row at the pole 2*end - inflection of Concave's unused branch; added to the rows and to C03's break points",
    "C02-5": "no engine with a hedged later conclusion processed in a batch with a NaN row; added `not` on the hybrid's last conclusion",
    "C02-6": "no Function term using registered functions on per-row variables in a batch; added a Takagi-Sugeno engine with abs/max/gt/sin/round",
    "C06-5": "operators were only passed to Rule.activate_with directly; added RuleBlock.activate under every activation method",
    "C06-6": "no rule weight within the comparison tolerance of 1; added 0.9995 and 1.0005",
    "C07-6": "rules were loaded once; added a second direct Rule.load before triggering",
    "C12-4": "only the range [0,1]; added half-open ranges [0,inf) and (-inf,1]",
    "C12-5": "clear() was only called on an enabled variable; added clear()/restart() while disabled",
    "C12-6": "no infinite default value; added default = +inf",
    "C13-6": "rule flags were always restored before a restart; added a persistent flip of a rule's enabled flag",
    "C14-4": "every rule block had rules; added an empty, fully configured block and a last block without rules",
    "C14-5": "no term height above 1; added height 2.0",
    "C14-6": "descriptions had no exotic line-boundary characters; added form feed / vertical tab / U+2028",
    "C15-4": "Function terms were created unloaded, so original and rebuilt engine failed alike; they are now loaded on creation",
    "C15-5": "flags were given to the constructors of the original too; the original is now built by assignment, the rebuilt one by the constructors",
    "C15-6": "no NaN vertices / two-argument short forms of Trapezoid and Triangle; added as components",
    "C16-4": "both outputs had the same term names and two-conclusion consequents were longer than the token bound; added all (variable, term) pairings with distinct term sets",
    "C17-5": "every formula was loaded into a fresh term; added re-configuring one long-lived term",
    "C17-6": "the variables dictionary was never shared between terms; added a two-term sharing scenario",
    "C04-6": "operands were always distinct objects; added the same array object as both operands (and float32 / list / matrix operands)",
    "C05-4": "only float64 ndarrays, floats and 0-d arrays were passed; added list, numpy.matrix and masked-array arguments",
    "C05-5": "a settings leak (float_type left at float16 after a context that raised): not a hedge defect - caught by C20, not by C05",
    "C05-6": "no float16 / float32 argument; added (the library must convert to double precision before applying the formula)",
    "C09-4": "sets were always built from fresh list literals; added a caller list that grows afterwards and a generator",
    "C09-5": "degree arrays were never modified after the set was built; added an overwrite of the caller's array",
    "C09-6": "the array returned by Op.midpoints was never modified by the caller; added an in-place change between two defuzzifications",
    "C10-5": "no total weight in (0, 1e-3]; added sequences of degrees 2^-12 and 2^-13",
    "C10-6": "all terms had height 1; added a Ramp of height 1/2 with batch degrees",
    "C11-5": "only the registered term classes were asked; added the wrapper terms Activated and Aggregated (declare vs do)",
    "C18-4": "the engine was never used before an export; it is now processed to a finite value (lock-previous on) before every export",
    "C18-6": "every input variable was enabled; added engines whose last input variable is disabled",
    "C19-4": "the `and` never sat inside the right operand of an `or`; added the `mixed-right` usage",
    "C19-5": "only the General activation method; added all seven (all for 1-block skeletons, one rotating otherwise)",
    "C19-6": "every rule was loaded (and Engine.restart reloaded them between rows); added an unloaded rule and stopped restarting",
    "C20-5": "every scenario started with an existing factory manager; added the state of a freshly imported library (None)",
    "C20-6": "Op.is_close was observed on operands of magnitude 1 only; added pairs of magnitude 100, 0.01 and 0",
    # ---- third round (ids 7..9) ----
    "C01-7": "every output owned its own defuzzifier / operator objects; added space G (shared instances, outputs of different kinds and ranges)",
    "C01-9": "the quick tier had no NaN input row under the selecting activation methods; added",
    "C02-8": "no row with an operand exactly 1 next to a NaN operand; added the row (1.0, NaN)",
    "C06-8": "rule objects were always fresh; added re-parsing in place of long-lived rule objects that held a weighted rule",
    "C06-9": "caught by C05 and C07 at once; C06 itself did not re-read the stored degree after triggering hedged conclusions in a batch; added",
    "C07-8": "the block-level driver used General only; added every activation method with conjunction != implication",
    "C07-9": "rules were always enabled while they were loaded; added a rule loaded while disabled and enabled afterwards",
    "C10-7": "every monotonic term had a unit span; Arc / SShape / ZShape now span 2",
    "C10-8": "the kind was always given as a string; added the enum member and configure()",
    "C10-9": "activations were always given as a fresh list; added an iterator and a caller-owned list edited afterwards",
    "C12-7": "restart was only driven on an engine with rule blocks; added restart with the rule blocks removed",
    "C12-8": "failure classes were RuntimeError / ValueError only; added the arithmetic error classes",
    "C12-9": "driver B had one rule block; now two, and every engine-level step compares the recorded previous value",
    "C13-8": "no rule weight with more than 3 decimals; added 0.3456 and the edit 0.34375",
    "C13-9": "no Last-activated engine; added Last and Highest engines",
    "C14-7": "names were identifiers only; added an extra variable / term with non-identifier names to the text variants",
    "C14-9": "numbers were Python floats only; added engines built from numpy.float32 (which exposed the FllExporter.format defect)",
    "C16-7": "every variable had terms; added the term-less variable family",
    "C16-8": "the importer was always used with the default separator; added the ';' separator differential",
    "C03-7": "no single / half precision arrays; added",
    "C03-9": "no Discrete term with a repeated x-coordinate; added vertical edges",
    "C04-8": "scalar-with-array and column-with-row operand kinds were missing; added",
    "C04-9": "scalar-with-array and column-with-row operand kinds were missing; added",
    "C05-8": "only an absolute tolerance at small degrees; added relative accuracy below 2^-10 and degrees down to 1e-20",
    "C09-8": "no membership in (0, 1e-3]; added degrees 2^-12 and 2^-11",
    "C09-9": "the batch size never equalled the resolution; added resolutions 1..4 for the 4-row batches (which exposed the resolution-1 defect)",
    "C11-7": "no sigmoid far from the origin; added far-from-origin parameter sets",
    "C11-8": "degree arrays were float64 only; added float32 / float16",
    "C15-7": "both engines were restarted before comparing outputs and rules were disabled before loading; now disabled after loading, compared without restart, under counting activation methods",
    "C15-8": "components were exported through to_string / repr only; added the typed PythonExporter methods and empty containers",
    "C15-9": "no numpy float32 / float16 scalar parameters; added (incl. inf and NaN)",
    "C17-8": "engines were built through the constructor only; added FLL import / copy / Python export paths with Function terms in input variables",
    "C18-7": "ranges were ascending only; added descending ranges",
    "C19-7": "the forward direction ran on skeleton engines only; added chained engines (incl. a term nobody concluded)",
    "C19-8": "the forward direction ran on skeleton engines only; added weighted outputs x lock-previous / default x input kinds",
    "C19-9": "the forward direction ran on skeleton engines only; added engines sharing one defuzzifier instance",
    "C20-7": "helpers were called on fresh objects only; added long-lived exporters built outside / in the previous context",
    "C20-8": "Op.str was observed on Python floats only; added numpy float32 / float16 scalars and arrays",
    "C20-9": "Benchmark.run was not among the comparison helpers; added",
    # ---- fourth round (ids 10..12) ----
    "C01-11": "the quick tier ran chained blocks under three activation methods only; now five (Threshold and First added)",
    "C01-12": "operators were always given to the constructors; added engines set up through Engine.configure (space H, all conjunction x implication pairs)",
    "C02-10": "the batch size never equalled a Centroid resolution; added resolutions 2, 3, 4",
    "C03-11": "Discrete pairs were always given in order; added reversed pairs followed by sort()",
    "C03-12": "terms were always fresh; added a term of another height re-configured without a height",
    "C04-12": "the debug switch was never on; added (and numpy's error state must stay untouched)",
    "C05-10": "no one-element arrays; added shapes (1,), (1,1), (1,1,1)",
    "C05-11": "results were never edited before the next call; added (a result must be a fresh array)",
    "C06-10": "weights came from rule text only and were never 0; added the Rule constructor path and weight 0",
    "C06-11": "the output variable in antecedents had a bounded aggregation; added one without an operator whose term sums to 1.35",
    "C07-10": "no copied engine; added a copy whose rule block is activated (the original's outputs must stay empty)",
    "C07-11": "operators were always given to the RuleBlock constructor; every other shard now installs them through Engine.configure",
    "C07-12": "caught by C06 at once (round 3); C07 itself only used fresh rule objects; a long-lived re-parsed rule was added",
    "C08-10": "no rule whose load failed after its first conclusion; added the `failed-load` status",
    "C08-12": "no NaN degree; added to the degree alphabet for blocks of up to 3 (thorough 4) rules",
    "C10-11": "no monotonic term with height below 1/2; added Sigmoid / SShape / Arc of height 1/4",
    "C12-10": "no default of exactly 0.0; added",
    "C12-12": "defuzzifier results were always contiguous arrays; added a column view and a reversed view (which exposed the fill-forward order defect)",
    "C13-10": "inputs were set on the variables and flags restored at once; added Engine.input_values, a persistent input flag flip, and the fresh engine now gets the values the history GAVE",
    "C14-10": "no rule weight of exactly 0; added",
    "C14-11": "exporter and importer were used with the default separator; added pairs configured with other separators",
    "C15-11": "exporters were created per use and encapsulated code was run after the correct import statement; long-lived exporters across aliases, encapsulated code run on its own",
    "C15-12": "every engine went through Engine(...); added an engine assembled step by step whose Function terms carry their own variables",
    "C16-11": "accepted FLL documents were exported but never processed, and a line was only truncated together with the rest of the document; both added",
    "C17-10": "comparison functions were evaluated at a few well-separated points; added all pairs of a 21-point near-tie lattice",
    "C18-12": "a settings leak (context not restored after an exception): a C20 mechanism - caught by C20, not by C18",
    "C19-11": "no rule whose load failed part-way in a ready engine; added under every activation method",
    "C20-10": "scalar() was observed on fresh Python values only; added arrays built at import time / during the previous observation",
    "C20-11": "all temporary factory managers had the same operators; two of them now know `//` and Function.format_infix is observed",
    "C20-12": "term printing (height omitted when close to 1) was not among the helpers; added",
    # ---- fifth round (ids 13..15) ----
    "C01-13": "caught by C07 at once; C01 itself loaded every rule once; every loaded rule is now loaded a second time",
    "C01-15": "caught by C12 at once; C01 had no locked output range with a weighted value outside it; added to space G",
    "C03-14": "no negative Spike width; added",
    "C03-15": "no range so wide / narrow that its square overflows / underflows; added S-, Z- and Pi-shapes over 1e200 and 1e-170",
    "C05-13": "the registered hedges were read from an unpolluted registry; other HedgeFactory / FactoryManager instances now register foreign hedges first",
    "C05-14": "the registered hedges were read from an unpolluted registry; other HedgeFactory / FactoryManager instances now register foreign hedges first",
    "C06-13": "the rule triggered after evaluation had a hedged first conclusion; it now starts with a plain one (which receives the rule's own degree array)",
    "C06-14": "caught by C08 (stored degree of a disabled rule), not by C06",
    "C06-15": "caught by C08 (stored degrees under First), not by C06",
    "C07-14": "no rule `with 0`; added",
    "C07-15": "components were given to the Engine constructor as lists; added one-shot iterables",
    "C08-14": "rules were unloaded through Rule.unload() only; added a rule that loses its antecedent after an activation left it triggered",
    "C08-15": "every antecedent was a single proposition; now `t or <always 0>` / `t and <always 1>`",
    "C09-13": "no range of huge magnitude; added the midpoint check on [0, 1e306], [-8e307, 8e307], [-1e306, 1e306]",
    "C09-14": "implications were the built-in (commutative) T-norms; added a user-defined non-commutative NormLambda",
    "C09-15": "no zero-width range; added [2, 2]",
    "C10-13": "degrees were floats; added Python ints and a bool array",
    "C10-14": "no degrees whose product underflows; added 1e-200",
    "C10-15": "a norm rounding-boundary slip (a < 1-b instead of a+b < 1): caught by C04 after operand symmetry at decimal complements was added, not by C10",
    "C11-13": "no ramp narrower than the comparison tolerance; added widths 5e-4 and 2^-12",
    "C11-14": "refusals were checked per class; degenerate instances (zero slope / width) now have to do what THEY declare",
    "C11-15": "vertical edges were skipped; a term that declares itself monotonic must at least answer without raising (Python and numpy parameters)",
    "C13-14": "every block owned its activation object; added an engine sharing one Highest(3) object between two two-rule blocks",
    "C13-15": "no term whose membership is the input array itself; added Function `x` under a weighted rule and an inputs-untouched clause",
    "C14-13": "engines were exported before they were ever used, each output owning its defuzzifier; now processed once and exported again, plus shared-instance engines",
    "C14-14": "ranges were ascending; added descending and zero-width ranges to the deviations",
    "C15-13": "every engine owned fresh components; added an engine built from another engine's output variables",
    "C15-14": "every output owned its defuzzifier; added the shared-instance engines of C01's space G",
    "C15-15": "needs a non-zero relative tolerance: caught by C20 once Rule.text joined its formatting helpers, not by C15",
    "C16-13": "an imported engine was only processed when it reported ready; now always (only clean value errors are allowed)",
    "C16-14": "a text parsed into an already loaded rule was only examined when the load failed; it must now agree with a fresh rule",
    "C17-14": "formulas were separated by blanks only; added tabs and newlines",
    "C17-15": "Function terms always had height 1; the value must not depend on the height attribute",
    "C18-13": "terms were never replaced after the rules were loaded; added",
    "C18-14": "reader rows were single-blank separated and exported with the default separator; added tabs, several blanks and other separators",
    "C18-15": "one unit in the last digit was tolerated for every cell and no grid step ended in 5 below the precision; input cells are now exact and fine grids were added",
    "C19-13": "truncated antecedents had two propositions; added single-proposition ones",
    "C19-14": "activation methods were built through their constructors; the forward direction now also runs on engines re-imported from their FLL text",
    "C19-15": "operators were given to the constructors; added engines set up through Engine.configure by name",
    "C20-13": "contexts were always created where they were entered; nestings now create their context objects up front",
    "C20-14": "Op.is_close pairs were symmetric with respect to the relative tolerance; added pairs between rtol*|a| and rtol*|b|",
    "C20-15": "contexts were opened on the library-wide settings only; added another Settings object",
    # ---- sixth round (ids 16..17) ----
    "C01-16": "caught by C07 at once; C01 had no conclusion with two different hedges; added `not very` / `seldom not` conclusions to space E",
    "C03-16": "no zero-width Concave (inflection == end); added - which exposed a defect above the end (repaired in /repo, 263ff0c)",
    "C04-16": "no all-zero / constant operand of another shape than the first; added scalar x constant array, column x constant row",
    "C04-17": "one-element arrays were given to hedges (C05) but not to norms; added shapes (1,) and (1,1)",
    "C05-16": "no empty array; added shapes (0,), (0,3), (2,0)",
    "C06-16": "the disabled variable in antecedents was an input; added a disabled OUTPUT variable whose fuzzy output still holds activations",
    "C08-16": "caught by C06 at once (rule weights 0.9995 / 1.0005); C08 drives the activation methods with given degrees and weight 1",
    "C09-16": "every Activated object occurred once per set; added the same object listed twice (against two equal objects)",
    "C10-16": "no subnormal total weight; added 2^-1030 for the Takagi-Sugeno group",
    "C14-16": "no engine without components; added every prefix of each base engine's component sequence (name only, + description, + inputs ...)",
    "C15-16": "no description made of white space; added ' ', '\\t ', '  two  ' for input / output variables and rule blocks",
    "C15-17": "counts were >= 1 and given to the constructor of the original too; added count 0, and the original's activation parameters are now assigned",
    "C16-16": "caught by C17 at once (`( x`); C16's FLL documents had no parenthesised Function formula; added, with every single parenthesis deleted",
    "C17-16": "min / max were only evaluated on finite operands; added all pairs over a lattice with NaN, infinities and signed zeros",
}
# changes that belong to another property's mechanism: the check that catches them
EXTRA = {"C05-5": ["C20"], "C18-12": ["C20"], "C06-14": ["C08"], "C06-15": ["C08"], "C10-15": ["C04"], "C15-15": ["C20"], "C08-16": ["C06"]}
results = []
for d in sorted(os.listdir(SRC)):
    m = re.match(r"out_(C\d+)$", d)
    if not m:
        continue
    prop = m.group(1)
    if ONLY and prop not in ONLY:
        continue
    for n in (1, 2, 3):
        patch = os.path.join(SRC, d, f"mut{n}.patch")
        demo = os.path.join(SRC, d, f"demo{n}.py")
        note = os.path.join(SRC, d, f"note{n}.txt")
        if not (os.path.exists(patch) and os.path.exists(demo)):
            continue
        sid = f"{prop}-{n + OFFSET}"
        checks = [prop] + EXTRA.get(sid, [])
        r = subprocess.run([os.path.join(VERIF, "tools", TOOL), patch, demo, *checks], capture_output=True, text=True)
        out = r.stdout + r.stderr
        confirmed = "MUTANT REJECTED" not in out and "suite: passes" in out
        by = [c for c in checks if re.search(rf"{c} exit=1 (\d+) violation", out)]
        detected = bool(by)
        first = next((ln.strip() for ln in out.splitlines() if ln.startswith("  [")), "")
        print(f"{sid}: confirmed={confirmed} detected={detected}  {first[:140]}", flush=True)
        if not confirmed:
            continue
        dst = os.path.join(VERIF, "seeded", sid)
        os.makedirs(dst, exist_ok=True)
        shutil.copy(patch, os.path.join(dst, "patch.diff"))
        shutil.copy(demo, os.path.join(dst, "demo.py"))
        meta = {
            "id": sid,
            "property": prop,
            "source": "independent sub-agent given only the property text and a scratch worktree",
            "needs_to_manifest": open(note).read().strip() if os.path.exists(note) else "",
            "ran": [
                f"tools/{TOOL} patch.diff demo.py " + prop,
                "scratch worktree of /repo: git apply; /venv/bin/python -m pytest -q -p no:cacheprovider --timeout=900 "
                "(only the baseline failures test_object / test_measure); demo.py exits non-zero with the patch, 0 without",
                (f"VERIF_REPO=<scratch worktree with patch.diff applied> ./check {' / '.join(checks)} quick" if os.environ.get("KEEP_SCRATCH")
                 else f"git -C /repo apply patch.diff; ./check {' / '.join(checks)} quick; git -C /repo checkout -- ."),
            ],
            "suite_passes_with_change": True,
            "demo_fails_with_change_passes_without": True,
            "detected_by": by,
            "first_violation": first,
            "missed_at_first": MISSED.get(sid),
        }
        with open(os.path.join(dst, "meta.json"), "w") as fh:
            json.dump(meta, fh, indent=1)
            fh.write("\n")
        results.append((sid, detected))
print("kept", len(results), "detected", sum(1 for _, d in results if d))

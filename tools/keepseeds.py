#!/usr/bin/env python3
"""Confirm every independently written property-breaking change on /repo and store it under /verif/seeded/<id>/.

usage: python3 tools/keepseeds.py /tmp/seed          (expects out_<PROP>/mutN.patch, demoN.py, noteN.txt)
For each change: tools/seedcheck.sh (scratch worktree: suite passes, demo fails with / passes without the patch; then
the patch is applied to /repo, the property's quick check is run, and /repo is restored)."""
import json
import os
import re
import shutil
import subprocess
import sys

SRC = sys.argv[1]
OFFSET = int(sys.argv[2]) if len(sys.argv) > 2 else 0  # round 2 changes are numbered 4..6
VERIF = os.path.dirname(os.path.dirname(os.path.abspath(__file__)))
# changes the checks missed when first run against them, and what was strengthened (DESIGN.md section 10)
MISSED = {
    "C01-2": "space C had no `any` proposition on a variable that can be disabled; added one",
    "C02-2": "no input variable had lock-range on; added lock-range variants of the base engines",
    "C03-1": "degenerate vertical edges (start == end) of SShape/ZShape/PiShape were not in the parameter alphabet; added",
    "C04-1": "no operand closer to 1 than 2^-8; added the edge lattice next to 0, 1/2 and 1",
    "C04-2": "no operand below 2^-8 (needs < 2^-53); added the edge lattice incl. subnormals",
    "C04-3": "no pair with a+b in [0.999, 1); added the edge lattice",
    "C08-3": "no degree in (0, 1e-3]; added 2^-12 to the degree and threshold alphabets",
    "C10-1": "every call used a fresh defuzzifier; added a long-lived Automatic instance alternating between kinds",
    "C12-3": "no infinite defuzzified value; added +inf to the value alphabet (both drivers)",
    "C13-2": "flags were always restored before the next operation; added a persistent flip of an output's enabled flag",
    "C13-3": "all engines used General and only outputs were compared; added a First-activated engine and per-rule state comparison",
    "C14-1": "no Function/Linear term inside an input variable; added to the deviations",
    "C14-2": "no rule weight needing more than 3 decimals, and weights were compared within atol; added 0.12346, tightened",
    "C15-2": "no term height above 1; added heights 2.0, 1.5, 1.0009",
    "C15-3": "no container larger than reprlib's defaults; added size deviations and large standalone components",
    "C16-1": "texts were only loaded into fresh Rule objects; added loading into an already loaded rule",
    "C19-1": "`and`/`or` never occurred in the same antecedent; added the `mixed` usage",
    "C19-3": "no disabled rule; added usages where the connective only occurs in a disabled rule",
    # ---- second round (ids 4..6) ----
    "C01-6": "quick tier had no 3-leaf antecedent (an `and` inside the right operand of `or`); added a reduced 3-leaf slice",
    "C02-4": "no input row at the pole 2*end - inflection of Concave's unused branch; added to the rows and to C03's break points",
    "C02-5": "no engine with a hedged later conclusion processed in a batch with a NaN row; added `not` on the hybrid's last conclusion",
    "C02-6": "no Function term using registered functions on per-row variables in a batch; added a Takagi-Sugeno engine with abs/max/gt/sin/round",
    "C06-5": "operators were only passed to Rule.activate_with directly; added RuleBlock.activate under every activation method",
    "C06-6": "no rule weight within the comparison tolerance of 1; added 0.9995 and 1.0005",
    "C07-6": "rules were loaded once; added a second direct Rule.load before triggering",
    "C12-4": "only the range [0,1]; added half-open ranges [0,inf) and (-inf,1]",
    "C12-5": "clear() was only called on an enabled variable; added clear()/restart() while disabled",
    "C12-6": "no infinite default value; added default = +inf",
    "C13-6": "rule flags were always restored before a restart; added a persistent flip of a rule's enabled flag",
    "C14-4": "every rule block had rules; added an empty, fully configured block and a last block without rules",
    "C14-5": "no term height above 1; added height 2.0",
    "C14-6": "descriptions had no exotic line-boundary characters; added form feed / vertical tab / U+2028",
    "C15-4": "Function terms were created unloaded, so original and rebuilt engine failed alike; they are now loaded on creation",
    "C15-5": "flags were given to the constructors of the original too; the original is now built by assignment, the rebuilt one by the constructors",
    "C15-6": "no NaN vertices / two-argument short forms of Trapezoid and Triangle; added as components",
    "C16-4": "both outputs had the same term names and two-conclusion consequents were longer than the token bound; added all (variable, term) pairings with distinct term sets",
    "C17-5": "every formula was loaded into a fresh term; added re-configuring one long-lived term",
    "C17-6": "the variables dictionary was never shared between terms; added a two-term sharing scenario",
}
results = []
for d in sorted(os.listdir(SRC)):
    m = re.match(r"out_(C\d+)$", d)
    if not m:
        continue
    prop = m.group(1)
    for n in (1, 2, 3):
        patch = os.path.join(SRC, d, f"mut{n}.patch")
        demo = os.path.join(SRC, d, f"demo{n}.py")
        note = os.path.join(SRC, d, f"note{n}.txt")
        if not (os.path.exists(patch) and os.path.exists(demo)):
            continue
        sid = f"{prop}-{n + OFFSET}"
        r = subprocess.run([os.path.join(VERIF, "tools", "seedcheck.sh"), patch, demo, prop], capture_output=True, text=True)
        out = r.stdout + r.stderr
        confirmed = "MUTANT REJECTED" not in out and "suite: passes" in out
        detected = re.search(rf"{prop} exit=1 (\d+) violation", out) is not None
        first = next((ln.strip() for ln in out.splitlines() if ln.startswith("  [")), "")
        print(f"{sid}: confirmed={confirmed} detected={detected}  {first[:140]}", flush=True)
        if not confirmed:
            continue
        dst = os.path.join(VERIF, "seeded", sid)
        os.makedirs(dst, exist_ok=True)
        shutil.copy(patch, os.path.join(dst, "patch.diff"))
        shutil.copy(demo, os.path.join(dst, "demo.py"))
        meta = {
            "id": sid,
            "property": prop,
            "source": "independent sub-agent given only the property text and a scratch worktree",
            "needs_to_manifest": open(note).read().strip() if os.path.exists(note) else "",
            "ran": [
                "tools/seedcheck.sh patch.diff demo.py " + prop,
                "scratch worktree of /repo: git apply; /venv/bin/python -m pytest -q -p no:cacheprovider --timeout=900 "
                "(only the baseline failures test_object / test_measure); demo.py exits non-zero with the patch, 0 without",
                f"git -C /repo apply patch.diff; ./check {prop} quick; git -C /repo checkout -- .",
            ],
            "suite_passes_with_change": True,
            "demo_fails_with_change_passes_without": True,
            "detected_by": [prop] if detected else [],
            "first_violation": first,
            "missed_at_first": MISSED.get(sid),
        }
        with open(os.path.join(dst, "meta.json"), "w") as fh:
            json.dump(meta, fh, indent=1)
            fh.write("\n")
        results.append((sid, detected))
print("kept", len(results), "detected", sum(1 for _, d in results if d))

#!/usr/bin/env python3
"""Print the markdown table of DESIGN.md section 10.2 from seeded/<id>/meta.json and patch.diff."""
import json
import os
import re

VERIF = os.path.dirname(os.path.dirname(os.path.abspath(__file__)))
rows = []
for sid in sorted(os.listdir(os.path.join(VERIF, "seeded")), key=lambda s: (s.split("-")[0], int(s.split("-")[1]))):
    d = os.path.join(VERIF, "seeded", sid)
    meta = json.load(open(os.path.join(d, "meta.json")))
    files = sorted(set(re.findall(r"^\+\+\+ b/fuzzylite/(\S+)", open(os.path.join(d, "patch.diff")).read(), re.M)))
    note = re.sub(r"\s+", " ", meta.get("needs_to_manifest", "")).strip()
    note = re.sub(r"^Mutant \d+ \(", "", note)[:210].replace("|", "/")
    first = "caught" if not meta.get("missed_at_first") else f"**missed** - {meta['missed_at_first']}"
    by = "/".join(meta.get("detected_by", []))
    if by != meta["property"]:
        first += f" (detected by {by})"
    rows.append(f"| {sid} | {', '.join(files)} | {note} | {first} |")
print("| id | file(s) changed | what it needs to manifest (first sentence of the author's note) | first run |")
print("|---|---|---|---|")
print("\n".join(rows))

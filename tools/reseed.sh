#!/bin/bash
# tools/reseed.sh [id...]   regression over the stored seeded changes: each patch is applied in a scratch worktree of /repo
# (outside /repo and /verif) and the checks listed in its meta.json must report a violation (VERIF_REPO=<worktree>).
# Prints one line per change; exits 1 if any stored change is no longer detected.
set -u
cd "$(dirname "$0")/.."
ids=("$@"); [ ${#ids[@]} -eq 0 ] && ids=($(ls seeded))
bad=0
for id in "${ids[@]}"; do
  wt=$(mktemp -d /tmp/reseed.XXXXXX)
  git -C /repo worktree add --detach "$wt" HEAD -q || { echo "$id: worktree failed"; bad=1; continue; }
  if ! git -C "$wt" apply "$PWD/seeded/$id/patch.diff" 2>/dev/null; then echo "$id: PATCH DOES NOT APPLY"; bad=1
  else
    checks=$(python3 -c "import json,sys; print(' '.join(json.load(open('seeded/$id/meta.json'))['detected_by']))")
    hit=""
    for c in $checks; do
      VERIF_REPO="$wt" VERIF_OUT="$wt/.verif-out" ./check "$c" quick >/dev/null 2>&1; [ $? -eq 1 ] && hit="$hit $c"
    done
    if [ -n "$hit" ]; then echo "$id: detected by$hit"; else echo "$id: NOT DETECTED (listed: $checks)"; bad=1; fi
  fi
  git -C /repo worktree remove --force "$wt" 2>/dev/null; rm -rf "$wt"
done
exit $bad

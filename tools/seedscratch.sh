#!/bin/bash
# tools/seedscratch.sh <patch> <demo.py> <check>...   like seedcheck.sh but the checks run against the scratch worktree
# (VERIF_REPO=<worktree>) instead of /repo, so that it can be used while a background run is reading /repo.
set -u
patch=$(readlink -f "$1"); demo=$(readlink -f "$2"); shift 2
wt=$(mktemp -d /tmp/seedchk.XXXXXX)
git -C /repo worktree add --detach "$wt" HEAD -q || exit 3
cleanup() { git -C /repo worktree remove --force "$wt" 2>/dev/null; rm -rf "$wt"; }
trap cleanup EXIT
( cd "$wt" && /venv/bin/python "$demo" >/dev/null 2>&1 ); clean=$?
git -C "$wt" apply "$patch" || { echo "PATCH DOES NOT APPLY"; exit 3; }
fails=$(cd "$wt" && /venv/bin/python -m pytest -q -p no:cacheprovider --timeout=900 2>&1 | grep '^FAILED' | grep -v 'test_object\|test_measure')
# tests/test_documentation.py shares /tmp/fl/docs with concurrent runs: when it is the only failure, run it again alone
if [ -n "$fails" ] && [ -z "$(echo "$fails" | grep -v test_documentation)" ]; then
  fails=$(cd "$wt" && /venv/bin/python -m pytest -q -p no:cacheprovider --timeout=900 tests/test_documentation.py 2>&1 | grep '^FAILED')
fi
( cd "$wt" && /venv/bin/python "$demo" >/dev/null 2>&1 ); mutated=$?
echo "suite: $([ -z "$fails" ] && echo passes || echo "FAILS: $fails")   demo: clean=$clean mutated=$mutated"
[ -z "$fails" ] && [ "$clean" = 0 ] && [ "$mutated" != 0 ] || { echo "MUTANT REJECTED"; exit 4; }
for c in "$@"; do
  out=$(cd /verif && VERIF_REPO="$wt" VERIF_OUT="$wt/.verif-out" ./check "$c" quick 2>&1); code=$?
  echo "$c exit=$code $(echo "$out" | grep -c '^VIOLATION') violation line(s)"
  echo "$out" | grep -A1 '^VIOLATION' | grep -v '^--' | head -4 | cut -c1-230
done

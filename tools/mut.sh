#!/bin/bash
# tools/mut.sh <file-in-repo> <old-text> <new-text> <check>...   apply a one-off textual mutation to /repo, run the
# quick checks, print the verdicts, and restore /repo.  (development aid; the kept mutants live in /verif/seeded)
set -u
file="/repo/$1"; old="$2"; new="$3"; shift 3
python3 - "$file" "$old" "$new" <<'PY' || exit 3
import sys
p, old, new = sys.argv[1:4]
s = open(p).read()
n = s.count(old)
if n == 0:
    sys.exit("mutation site not found")
open(p, "w").write(s.replace(old, new, 1))
print(f"mutated {p} ({n} candidate sites, first replaced)")
PY
for c in "$@"; do
  out=$(cd /verif && ./check "$c" quick 2>&1); code=$?
  echo "$c exit=$code  $(echo "$out" | grep -c '^VIOLATION') violation line(s)"
  echo "$out" | grep -A1 '^VIOLATION' | grep -v '^--' | head -4 | cut -c1-220
done
git -C /repo checkout -- .

#!/usr/bin/env python3
"""Regenerate /verif/MANIFEST.json from the table below (python3 tools/gen_manifest.py)."""

import json
import os

HERE = os.path.dirname(os.path.dirname(os.path.abspath(__file__)))
ALL = [f"C{i:02d}" for i in range(1, 21)]

# id -> (level, technique, text, note, design section)
CHECKS = {
    "C03": (
        "exploration",
        "bounded-exhaustive enumeration of parameter tuples x boundary/lattice points against a reference model",
        "Every valid parameter tuple of the 20 shape terms (+Constant) over a dyadic+decimal+seed-phased position "
        "alphabet (both directions, degenerate edges, infinite shoulders) x 4 heights is evaluated at every break "
        "point, its floating-point neighbours, mid points, a lattice over the support, +-1e6, +-inf and NaN through "
        "the float, 0-d, 1-D and 2-D entry points and compared with the documented closed form; range, NaN-iff-NaN, "
        "declared monotonicity and array==elementwise are checked at every point.",
        "Positions outside the alphabet are not explored; loose docstrings are read as listed in vmc/ref/terms.py; "
        "values are compared with tolerance 1e-12+1e-9 rel (most are bit-identical, counted in the evidence).",
        "5/C03",
    ),
    "C07": (
        "model_checking",
        "grammar-bounded exhaustive enumeration of consequents executed on the real Rule/RuleBlock against a reference model",
        "All consequents of 1..3 conclusions over an alphabet of (output variable, term, hedge chain) triples - i.e. "
        "every order of every multiset of conclusions - are loaded with Rule.create and triggered with every degree of "
        "{0,.25,.5,1,NaN,+-inf}, a batch, and disabled; 1-2 conclusion rules also run through RuleBlock.activate with "
        "and without a weight next to a second rule. After each step the fuzzy outputs of all variables are compared "
        "term by term, degree by degree and implication by identity with the reference contribution list.",
        "Hedge chains of length <= 2 (quick: 12 chains; thorough: all 43); 3 output variables, 2 terms. The known "
        "finding C07-hedge-leak is matched only when the observed degrees equal the defect model exactly.",
        "5/C07",
    ),
    "C08": (
        "model_checking",
        "exhaustive enumeration of degree vectors x rule status deviations x method parameters on the real RuleBlock against a reference model",
        "Blocks of n rules whose degrees are exactly the inputs: all degree vectors over {0,.25,.5,1} (ties and zeros "
        "by construction), all status vectors with a bounded number of disabled/unloaded rules, all 7 methods with "
        "every parameter value (n=0..rules+1, 5 thresholds on/off the degrees, 6 comparators) are activated on the "
        "real block and compared with the reference selection: triggered set, stored degrees, multiset of "
        "contributions, triggered=>degree>0; vector-incapable methods must reject batches.",
        "n <= 4 (quick) / n <= 8 (thorough, degree alphabet 3 for n >= 7); disabled rules are counted by the selecting "
        "methods (reading 3.3 in DESIGN.md); order of contributions is not demanded.",
        "5/C08",
    ),
    "C12": (
        "model_checking",
        "explicit-state BFS to closure over operation histories on the real OutputVariable/Engine with a lock-step reference model",
        "For each of the 12 settings the reachable state space of a real OutputVariable is explored breadth-first to a "
        "fixpoint under defuzzify(all batches of 1..Lb scripted values, in every result shape real defuzzifiers "
        "produce), injected defuzzifier failures, clear(), disabled calls; a second driver explores Engine.process / "
        "restart on a WeightedAverage engine producing the same values. The cascade reference model is stepped in "
        "lock-step and value (all rows) and previous_value are compared after every transition; failures must leave "
        "value, previous value and fuzzy output untouched. Closure means histories of every length are covered.",
        "Batches up to 2 (quick) / 3 (thorough) rows; value alphabet {NaN, 0.25, 0.75, 2.0, -1.0}; range [0,1]; states "
        "are rebuilt by replaying their shortest history on a fresh object.",
        "5/C12",
    ),
    "C09": (
        "exploration",
        "bounded-exhaustive enumeration of sampled fuzzy sets with reference decision procedures on the implementation's sample vector",
        "All ordered sets of 0..2 (and a bounded family of 3) activated terms over a 10-term alphabet x 4 degrees x 2 "
        "implications x 4 aggregations x 4 ranges x resolutions (1..64, 100, 128, 999, 1000 in the thorough tier) are "
        "defuzzified by the 5 real integral defuzzifiers. Op.midpoints and the aggregated membership at the sample "
        "points are compared with the reference; centroid, bisector (mean of exactly tied points), SOM/MOM/LOM are "
        "decided by reference procedures on the same sample vector; range, SOM<=MOM<=LOM, NaN-iff-all-zero, centroid "
        "translation and batch==per-set are checked. Vacuity guards require >1000 exact multi-point ties.",
        "Term alphabet of 10 shapes positioned relative to the range; bisector comparisons whose tie margin is below "
        "1e-9 are counted as tie_margin_skipped instead of judged.",
        "5/C09",
    ),
    "C10": (
        "exploration",
        "exhaustive enumeration of activation sequences against a reference model plus metamorphic relations",
        "All activation sequences of length 0..L over Takagi-Sugeno, Tsukamoto (two groups), inverse-Tsukamoto and "
        "mixed term groups x 4 degrees x {no aggregation, 9 S-norms} x 2 defuzzifiers x 3 types are defuzzified on the "
        "real classes and compared with the reference grouped weighted average/sum (values and refusal classes); "
        "grouped_terms/activation_degree, zero-degree removal, NaN-iff-no-weight, average-within-constants, "
        "Automatic==explicit kind and batch==scalar runs are checked on every sequence.",
        "L = 3 (quick) / 4 (thorough) for 4-term groups, one more for 2-term groups; heights 1; grouped degrees above "
        "the height are compared NaN/inf-equal with the documented closed forms.",
        "5/C10",
    ),
    "C11": (
        "exploration",
        "bounded-exhaustive enumeration of monotonic terms x activation-degree grid with an intrinsic inverse oracle",
        "For the 6 monotonic terms, every ordered parameter pair of the position alphabet (both directions) x 4 "
        "heights x every y of a grid of (0,h) incl. the points next to 0, h/2 and h: z(y) is finite, mu(z(y)) = y "
        "within 1e-9*h, z is monotone in the term's direction, equals the documented closed form, array == "
        "elementwise; all other registered terms refuse with RuntimeError.",
        "y >= 2^-1000*h (for subnormal y the exact inverse of Concave is not representable).",
        "5/C11",
    ),
    "C04": (
        "exploration",
        "bounded-exhaustive enumeration of a dyadic operand grid against an exact rational reference model",
        "Every pair on an exact dyadic grid of [0,1] (and on a seed-phased non-dyadic lattice) and every triple on a "
        "coarser grid is evaluated on the real norm classes through the scalar, 1-D and 2-D entry points and compared "
        "bit for bit with the documented formula computed in exact rational arithmetic; the norm laws (range, "
        "commutativity, monotonicity, identity, annihilator, T<=min, S>=max, associativity, duality) are checked on "
        "every explored tuple. The space is finite and enumerated completely.",
        "Values between grid points are not explored; NilpotentMaximum's docstring typo (a+b<0) is read as a+b<1; the "
        "reference transcription of the docstrings is trusted (self-tested).",
        "5/C04",
    ),
    "C05": (
        "exploration",
        "bounded-exhaustive enumeration of a dyadic degree grid against a reference model",
        "Every degree of a dyadic grid of [0,1], the branch points with their floating-point neighbours and a "
        "seed-phased lattice is pushed through the 6 registered hedges (scalar, 1-D, 2-D) and compared with the "
        "documented formula (bit-identical on the dyadic grid); range, fixed points, monotonicity, ordering and the "
        "inverse/involution relations are checked at every point.",
        "Values between grid points are not explored; reference transcription trusted (self-tested).",
        "5/C05",
    ),
}

CHECKS["C19"] = (
    "model_checking",
    "exhaustive enumeration of all subsets of removable components on real skeleton engines against reference needs",
    "For every skeleton engine (1-2 blocks x 1-2 outputs, each block using neither/and/or/both connectives, outputs "
    "integral or weighted, rules concluding into one or both outputs) every subset of {conjunction, disjunction, "
    "implication} per block and {aggregation, defuzzifier} per output is removed on the real engine; is_ready(errors) "
    "is compared with the reference list of needed-and-missing components (each must be named) and a ready engine "
    "must process 3 finite rows without raising.",
    "Quick restricts the 2x2 skeletons to 4 usage pairs; General activation; whitespace-separated rule tokens.",
    "5/C19",
)
CHECKS["C20"] = (
    "model_checking",
    "exhaustive enumeration of context nestings, exit paths and direct assignments on the real settings singleton with a snapshot-stack model",
    "All nestings up to depth 4 of settings.context over subsets of the 7 settings (all 128 subsets at depths 1-2), "
    "left normally or by ValueError/KeyboardInterrupt raised in the innermost body and caught after every number of "
    "contexts, with one direct assignment at any level; after every enter, assignment and exit vars(settings) is "
    "compared with the snapshot-stack model (identity for logger, factory manager, float type) and Op.str, "
    "Op.is_close, scalar dtype, repr alias and the factory property are observed.",
    "Depth 3-4 use subsets of size <= 1 (quick) / <= 2 (thorough); the singleton is reset and asserted pristine "
    "between scenarios; thread safety is out of scope.",
    "5/C20",
)

CHECKS["C18"] = (
    "model_checking",
    "exhaustive enumeration of dataset sizes, scopes and export switches on real engines against a reference grid and per-row processing",
    "For engines with 1-4 inputs every requested size v in 1..300 (thorough 1..2000) under AllVariables and a range "
    "of sizes under EachVariable is exported and compared line by line with the reference table: integer-root grid "
    "size, itertools.product order (last input fastest), header, and for each row the output the engine produces "
    "when the rows are processed one by one with Python floats on a separate copy; all switch/separator/decimals "
    "combinations for small v; all reader contents of <= 5 lines over 5 line kinds x skip_lines 0..2.",
    "One engine per input count (Takagi-Sugeno + Mamdani outputs, lock-previous on one output); numbers may differ in "
    "the last printed digit only when within one unit of it (counted as last_digit_rounding).",
    "5/C18",
)

CHECKS["C06"] = (
    "model_checking",
    "grammar-bounded exhaustive enumeration of antecedent expression trees executed on the real parser/evaluator against the source tree's reference value",
    "All expression trees up to 3 leaves over 5 leaf propositions and 4 leaves over 3 (thorough: 4 over 5, 5 over 3) "
    "with every and/or labelling, plus all hedge-chain / any / output-variable / disabled-variable leaf forms, are "
    "printed by a trusted printer in 5 renderings (minimal, full, doubled parentheses, no spaces, parenthesised "
    "propositions), loaded with Rule.create and evaluated under 9 (thorough: all 63) conjunction/disjunction pairs, "
    "rule weights and input rows incl. NaN and a batch; the implementation's postfix must equal the tree's postfix "
    "and its value the reference value of the source tree x weight.",
    "Names are not keywords/hedges/function names; the reference recogniser must parse each rendering back to the "
    "tree (keeps printer and recogniser honest for C16).",
    "5/C06",
)

CHECKS["C16"] = (
    "model_checking",
    "exhaustive enumeration of token strings and of all single edits of valid rules/FLL documents on the real loaders with a reference recogniser",
    "All rule-frame strings of <= 6 symbols, all antecedent token strings of length <= 5 (thorough 6) over 12 tokens, "
    "all consequent token strings over 10 tokens (with weight tails), every single edit at every position of the valid "
    "rules printed from all trees with <= 3 leaves, every line/token mutation of two FLL documents, and nesting/chain "
    "depths up to 256 are fed to Rule.parse+load / RuleBlock.load_rules / FllImporter. Every failure must be a "
    "syntax/value/lookup error and leave the rule unloaded; every grammatical text must be accepted; every listed-class "
    "single edit that the reference recogniser judges invalid must be rejected; every accepted text must re-export, "
    "re-create and evaluate.",
    "Rejection is demanded only for listed-class single edits of valid rules; other ungrammatical texts that the "
    "shunting-yard accepts (stray balanced parentheses, postfix order) are counted as lenient_accepts.",
    "5/C16",
)

CHECKS["C17"] = (
    "model_checking",
    "grammar-bounded exhaustive enumeration of formula trees and operator chains executed on the real parser/evaluator against the source tree's reference value",
    "All well-typed formula trees with <= 2 operator/function nodes over the full alphabet, all 3-node trees over a "
    "reduced alphabet, each of the 34 functions/constants in every depth-<=2 context and all chains of 4 binary "
    "operators (plus one unary prefix at every position) are printed minimally parenthesised, fully parenthesised and "
    "without spaces, loaded with Function.create and evaluated via Function.membership on 4 scalar assignments and "
    "arrays. The implementation's postfix must equal the tree's postfix, its values the documented mathematics of the "
    "source tree, the reference RPN evaluation of its postfix the same values; every ill-formed variant (operand "
    "deleted, argument added/removed, parenthesis added/removed) must be rejected.",
    "Literals exact at 3 decimals; variables x (argument), y (term variable), i (engine input); numpy vs math agree "
    "within 1e-9 relative; chains are parsed by a reference Pratt parser of the documented table.",
    "5/C17",
)

CHECKS["C01"] = (
    "model_checking",
    "bounded-exhaustive enumeration of engine recipes x input rows executed on the real engine against a reference pipeline",
    "Eight recipe sub-spaces, each enumerated completely: all 7x9x7x9 operator assignments of a 3-rule engine x integral "
    "defuzzifiers; every shape term as input and output term, Takagi-Sugeno (Constant/Linear/Function), Tsukamoto and "
    "inverse Tsukamoto outputs; all 2^10 enabled-flag assignments of a 2x2x2 engine; output variables in antecedents "
    "under 10 aggregations x all rule orders x block orders x activation methods; all antecedent trees x weights x "
    "consequents; 16 activation settings. Each engine is built through the public constructors and processed on rows "
    "incl. bounds, break points, out of range, +-inf, NaN; rule degrees, triggered flags, fuzzy outputs, sampled "
    "aggregated memberships and output values are compared with the reference pipeline.",
    "1-3 inputs, 1-2 outputs, 1-2 blocks, <= 4 rules per block; tie-sensitive defuzzifiers are decided on the "
    "implementation's sample vector after it has been compared with the reference membership; hedged conclusions only "
    "last in a consequent (C07's known finding).",
    "5/C01",
)
CHECKS["C02"] = (
    "model_checking",
    "exhaustive enumeration of input batches on real engines with a differential float-vs-batch oracle",
    "For ~120 engine recipes (operator deviations x integral defuzzifiers, all 20 shape terms, Takagi-Sugeno, "
    "Tsukamoto, inverse Tsukamoto, hybrid with chained blocks) every batch of 1..N rows over a row alphabet with "
    "interior, bound, break point, out-of-range, +-inf and NaN rows is processed (i) row by row with Python floats, "
    "(ii) as per-variable arrays, (iii) through the Engine.input_values matrix, (iv) split into two successive array "
    "calls at every position, under lock-previous/default/lock-range settings; outputs and fuzzy_value() strings must "
    "agree row for row and the exception class (or none) must be the same.",
    "N = 2-3 (quick) / 3-4 (thorough); all 8 lock settings for the base engines, 2 for the others; General activation.",
    "5/C02",
)

CHECKS["C13"] = (
    "model_checking",
    "explicit-state BFS over operation histories on real engines with a differential fresh-engine oracle and structural digests",
    "For 6 engines (Mamdani, Larsen with chained blocks, Takagi-Sugeno with Linear and a Function reading an input and "
    "an earlier output, Tsukamoto, hybrid, lock-previous) all histories up to depth 4 (thorough 5) over 15 operations "
    "(set inputs incl. NaN and a batch, process, restart, copy-and-switch, 4 edits, 4 toggle-and-restore) are explored "
    "breadth-first, merging states on a deep structural digest of all live engines. At every process the outputs must "
    "equal those of a freshly built engine with the same edits; after restart the digest must equal the fresh "
    "engine's; after copy the object graphs must share no mutable object, internal references must point into the copy "
    "and every later operation must leave the other engine's digest unchanged.",
    "States are rebuilt by replaying their history on a fresh engine; the search is sharded by the first operation, so "
    "`states` sums the distinct digests per shard; the lock-previous engine is exempt from the history-free clause.",
    "5/C13",
)

CHECKS["C14"] = (
    "model_checking",
    "deviation-bounded exhaustive enumeration of engine recipes through the real FLL exporter/importer with text, structure and behaviour oracles",
    "Five base engines and every single-field deviation from them (thorough: every pair of deviations from different "
    "field groups on two bases), each field ranging over its whole alphabet (all 20 shape terms and Constant/Linear/"
    "Function with their parameter shapes, heights, every norm or none per role, every defuzzifier/parameter, every "
    "activation method/parameter incl. all comparators, flags, defaults, ranges, descriptions, names, weights) x "
    "decimals {3,9,1} (thorough 1..9): export-import-export must reproduce the text, an independent walker must find "
    "the same structure, representable engines must compute bit-identical outputs on an input grid, and accepted text "
    "variants (comments, blank lines, key order, omitted keys, int-looking / over-precise numbers) must be normalised "
    "to a fixed point by one cycle.",
    "Rules are always enabled (FLL has no per-rule flag); descriptions without leading/trailing blanks; the known "
    "finding C14-height-weight-prints-as-one is matched only for decimals < 3 and a height/weight that prints as 1.",
    "5/C14",
)

CHECKS["C15"] = (
    "model_checking",
    "deviation-bounded exhaustive enumeration of engine recipes and components through the real Python exporter with re-execution oracles",
    "Five base engines, every single-field deviation of C14's alphabets, numeric deviations over arbitrary doubles "
    "(1/3, 0.1+0.2, 1e-300, 1e300, -0.0, 5e-324, 2^53+1, +-inf, NaN) in parameters, ranges, defaults, thresholds, "
    "heights and Discrete pairs, quotes/backslashes in descriptions and a disabled rule at every position are exported "
    "under the aliases fl, '', '*' and a custom one, as plain repr and encapsulated (black-formatted for the bases); "
    "the code is executed in a fresh namespace after the library's import statement and the rebuilt engine must have "
    "the same repr, the same FLL export and bit-identical outputs on an input grid. Every component (terms, variables, "
    "rule blocks, rules, antecedents, consequents, norms, hedges, defuzzifiers, activations, Activated, Aggregated) is "
    "rebuilt on its own.",
    "Quick tier rotates one alias per ordinary deviation (all four for base/number/quotes/disabled-rule groups); engine "
    "names are non-empty identifiers.",
    "5/C15",
)

REASON_NOT_BUILT = "check not built yet in this phase (planned in DESIGN.md section 5); no claim is made"


SUFFIX = (" The alphabets were enlarged after five rounds of independently written property-breaking changes (argument kinds, "
          "construction paths, shared and long-lived objects, configuration switches, extreme values); the complete and current "
          "enumeration rule is in the evidence file (coverage.rule) and in the [built] notes of the design section.")


def main() -> None:
    checks = []
    for pid in ALL:
        if pid not in CHECKS:
            continue
        level, technique, text, note, ref = CHECKS[pid]
        checks.append(
            {
                "property_id": pid,
                "quick_cmd": f"./check {pid} quick",
                "thorough_cmd": f"./check {pid} thorough",
                "evidence_file": f"/verif/evidence/{pid}.json",
                "replay_cmd_template": f"./check {pid} --replay {{path}}",
                "engine": "vmc",
                "level_claimed": {"category": level, "text": text + SUFFIX, "design_ref": f"DESIGN.md section {ref}"},
                "level_note": note,
                "technique": technique,
            }
        )
    manifest = {
        "version": 1,
        "setup_cmd": "./setup.sh",
        "hooks": {
            "guard": "FUZZYLITE_PYFUZZYLITE_VERIF",
            "enable": "no source hooks exist: checks drive the public API of the working tree at /repo (imported by "
            "path, no build step); the variable is exported by ./check for completeness",
            "baseline_off_cmd": "cd /repo && env -u FUZZYLITE_PYFUZZYLITE_VERIF /venv/bin/python -m pytest -ra -q "
            "-p no:cacheprovider --timeout=900 --continue-on-collection-errors",
            "source_commits": [],
            "add_only": True,
        },
        "engines": [
            {
                "name": "vmc",
                "path": "/verif/vmc",
                "serves_properties": sorted(CHECKS),
                "kind_free_text": "hand-written bounded-exhaustive explorer for Python: product / grammar / deviation "
                "enumerators and explicit-state BFS over operation histories on the real objects, each step compared "
                "with a pure-Python reference model (vmc/ref) or a differential oracle; 16-way deterministic sharding",
            }
        ],
        "checks": checks,
        "not_applicable": [
            {"property_id": pid, "reason": REASON_NOT_BUILT} for pid in ALL if pid not in CHECKS
        ],
        "notes": "All checks: ./check <ID> quick|thorough; violations are written to /verif/replays/<ID>/ and replayed "
        "with ./check <ID> --replay <file>. Known findings: /verif/known_findings.json.",
    }
    with open(os.path.join(HERE, "MANIFEST.json"), "w") as fh:
        json.dump(manifest, fh, indent=1)
        fh.write("\n")


if __name__ == "__main__":
    main()

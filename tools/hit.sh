#!/bin/bash
# tools/hit.sh <patch> <check>...   apply a patch in a scratch worktree of /repo and run the quick checks against it
# (no test suite, no demo: the fast inner loop while strengthening a check against an already confirmed change).
set -u
patch=$(readlink -f "$1"); shift
wt=$(mktemp -d /tmp/hit.XXXXXX)
git -C /repo worktree add --detach "$wt" HEAD -q || exit 3
trap 'git -C /repo worktree remove --force "$wt" 2>/dev/null; rm -rf "$wt"' EXIT
git -C "$wt" apply "$patch" || { echo "PATCH DOES NOT APPLY"; exit 3; }
for c in "$@"; do
  out=$(cd "$(dirname "$0")/.." && VERIF_REPO="$wt" VERIF_OUT="$wt/.verif-out" ./check "$c" quick 2>&1); code=$?
  echo "$c exit=$code"; echo "$out" | grep -A1 '^VIOLATION' | grep -v '^--' | head -4 | cut -c1-230
done

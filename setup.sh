#!/bin/sh
# Offline setup: nothing to build (pure Python against /venv); verify the interpreter, the library binding and tools.
set -e
cd "$(dirname "$0")"
chmod +x check
/venv/bin/python -c "import numpy, sys; sys.path.insert(0, '.'); from vmc.lib import fl; print('fuzzylite', fl.__file__)"
command -v python3-vt >/dev/null && python3-vt -c "import jsonschema" && echo "jsonschema ok (tooling venv)"
mkdir -p evidence replays
./check --selftest
echo setup ok

"""CLI of the verification machinery:  python -m vmc.main <ID> [quick|thorough] [--replay FILE] [--workers N]."""

from __future__ import annotations

import argparse
import hashlib
import importlib
import json
import multiprocessing
import os
import subprocess
import sys
import time
import traceback

from . import explore
from .lib import REPO, VERIF, jsonable

EVIDENCE_SCHEMA = "/root/.vp/EVIDENCE.schema.json"
KNOWN_FINDINGS = os.path.join(VERIF, "known_findings.json")
MAX_REPLAYS = 12


def _load(check_id: str):
    return importlib.import_module(f"vmc.checks.{check_id.lower()}")


def _run_shard(args):
    mod_name, tier, seed, shard = args
    mod = importlib.import_module(mod_name)
    try:
        return mod.run_shard(tier, seed, shard)
    except BaseException:
        return {"broken": traceback.format_exc(), "shard": repr(shard)}


def load_known(prop: str) -> list[dict]:
    if not os.path.exists(KNOWN_FINDINGS):
        return []
    with open(KNOWN_FINDINGS) as fh:
        entries = json.load(fh)["findings"]
    return [e for e in entries if e["property"] == prop and e.get("status") == "known"]


def matches(entry: dict, sig: dict) -> bool:
    for k, v in entry["match"].items():
        got = sig.get(k)
        if isinstance(v, list):
            if got not in v:
                return False
        elif got != v:
            return False
    return True


def write_replay(prop: str, violation: dict) -> str:
    body = json.dumps(violation, sort_keys=True, indent=1)
    digest = hashlib.sha1(body.encode()).hexdigest()[:16]
    d = os.path.join(os.environ.get("VERIF_OUT") or VERIF, "replays", prop)
    os.makedirs(d, exist_ok=True)
    path = os.path.join(d, f"{digest}.json")
    with open(path, "w") as fh:
        fh.write(body + "\n")
    return path


def validate_evidence(path: str) -> str | None:
    """Validate the evidence file against the harness schema using the tooling venv (has jsonschema)."""
    if not os.path.exists(EVIDENCE_SCHEMA):
        return None
    code = (
        "import json,sys,jsonschema;"
        "jsonschema.validate(json.load(open(sys.argv[1])), json.load(open(sys.argv[2])))"
    )
    try:
        r = subprocess.run(
            ["python3-vt", "-c", code, path, EVIDENCE_SCHEMA], capture_output=True, text=True, timeout=120
        )
    except (OSError, subprocess.TimeoutExpired):
        return None
    if r.returncode != 0:
        return r.stderr.strip().splitlines()[-1] if r.stderr.strip() else "schema validation failed"
    return None


def executable_lines(path: str) -> set[int]:
    with open(path) as fh:
        code = compile(fh.read(), path, "exec")
    lines: set[int] = set()
    stack = [code]
    while stack:
        c = stack.pop()
        if c.co_flags & 0x1:  # CO_OPTIMIZED: function bodies only (module/class level runs at import time)
            lines.update(ln for _, _, ln in c.co_lines() if ln is not None and ln != c.co_firstlineno)
        stack.extend(k for k in c.co_consts if hasattr(k, "co_lines"))
    return lines


def anchor_coverage(mod, tier: str, seed: int, budget_s: float = 45.0) -> dict:
    """Run shards of the check in-process under sys.monitoring (LINE events, each location disabled after its first
    hit) and report executed/executable lines of the library files the property is anchored in."""
    prop_files = []
    with open(os.path.join(VERIF, "properties.jsonl")) as fh:
        for line in fh:
            p = json.loads(line)
            if p["id"] == mod.ID:
                prop_files = p["anchors"]["files"]
    mon = sys.monitoring
    tool = mon.COVERAGE_ID
    hits: dict[str, set[int]] = {}
    root = os.path.realpath(REPO) + os.sep + "fuzzylite" + os.sep

    def on_line(code, line):
        fn = code.co_filename
        if fn.startswith(root):
            hits.setdefault(fn[len(os.path.realpath(REPO)) + 1:], set()).add(line)
        return mon.DISABLE

    mon.use_tool_id(tool, "vmc-anchor-coverage")
    mon.register_callback(tool, mon.events.LINE, on_line)
    mon.set_events(tool, mon.events.LINE)
    shards = mod.plan(tier, seed)
    t0 = time.time()
    ran = 0
    try:
        step = max(1, len(shards) // 12)
        for s in shards[::step] + shards:
            if time.time() - t0 > budget_s:
                break
            try:
                mod.run_shard(tier, seed, s)
            except Exception:  # noqa: BLE001
                pass
            ran += 1
    finally:
        mon.set_events(tool, 0)
        mon.register_callback(tool, mon.events.LINE, None)
        mon.free_tool_id(tool)
    out = {"shards_traced": ran, "files": {}}
    for f in prop_files:
        path = os.path.join(REPO, f)
        if os.path.exists(path):
            ex = executable_lines(path)
            out["files"][f] = {"executed": len(hits.get(f, set()) & ex), "executable": len(ex)}
    return out


def run(check_id: str, tier: str, seed: int, workers: int, with_coverage: bool = False) -> int:
    t0 = time.time()
    mod = _load(check_id)
    prop = mod.ID
    shards = mod.plan(tier, seed)
    jobs = [(mod.__name__, tier, seed, s) for s in shards]
    if workers <= 1 or len(jobs) <= 1:
        results = [_run_shard(j) for j in jobs]
    else:
        ctx = multiprocessing.get_context("fork")
        with ctx.Pool(min(workers, len(jobs))) as pool:
            results = pool.map(_run_shard, jobs, chunksize=1)
    broken = [r for r in results if "broken" in r]
    if broken:
        tb = broken[0]["broken"]
        if "/fuzzylite/" in tb:
            # the implementation raised outside any per-case guard (e.g. while the harness was building its
            # fixture through the public API): on a tree where the property holds this does not happen
            path = write_replay(prop, {"property": prop, "sig": {"kind": "crash"}, "case": {"shard": broken[0]["shard"]},
                                       "expected": "no exception", "actual": tb.strip().splitlines()[-1],
                                       "message": "the library raised while the harness drove it", "traceback": tb})
            print(f"VIOLATION property={prop} replay={path}")
            print("  " + tb.strip().splitlines()[-1])
            return 1
        print(f"BROKEN-CHECK property={prop}: a shard crashed ({broken[0]['shard']})")
        print(tb)
        return 2
    merged = explore.merge(results)
    summary = mod.summarize(tier, seed, merged)
    wall = time.time() - t0

    # ---- classify violations against the committed known findings ------------------------------------------------
    known = load_known(prop)
    known_hits: dict[str, int] = {}
    unknown: dict[str, dict] = {}
    unknown_counts: dict[str, int] = {}
    for v in merged["violations"]:
        sig_key = json.dumps(v["sig"], sort_keys=True)
        n = merged["sig_counts"].get(sig_key, 1)
        hit = next((e for e in known if matches(e, v["sig"])), None)
        if hit is not None:
            known_hits[hit["id"]] = known_hits.get(hit["id"], 0) + 1
            continue
        if sig_key not in unknown:
            unknown[sig_key] = v
            unknown_counts[sig_key] = n
    n_unknown = sum(unknown_counts.values())

    # ---- evidence ------------------------------------------------------------------------------------------------
    coverage = {
        "evaluations": merged["evals"],
        "distinct_nontrivial": merged["nontrivial"],
        "rule": summary.get("rule", ""),
        "samples": (summary.get("samples") or merged["samples"])[:4],
        "exhaustive": bool(summary.get("exhaustive", True)) and not merged["capped"],
        "outcome_classes": dict(sorted(merged["classes"].items())),
        "shards": merged["shards"],
        "workers": workers,
        "repo": REPO,
    }
    if mod.LEVEL == "model_checking":
        coverage["states"] = merged["states"]
        coverage["transitions"] = merged["transitions"]
        coverage["traces_validated_against_impl"] = merged["traces"]
    coverage.update(summary.get("coverage", {}))
    if with_coverage:
        coverage["anchor_lines"] = anchor_coverage(mod, tier, seed)
    if merged["extra"]:
        coverage["counters"] = dict(sorted(merged["extra"].items()))
    coverage["known_findings_seen"] = known_hits
    evidence = {
        "property_id": prop,
        "tier": tier,
        "seed": seed,
        "level": mod.LEVEL,
        "coverage": jsonable(coverage),
        "assumptions": summary.get("assumptions", []),
        "wall_s": round(wall, 3),
        "violations": n_unknown,
    }
    # (VERIF_OUT redirects evidence and replay files of a run against another tree, e.g. the seeded-change regression)
    out_root = os.environ.get("VERIF_OUT") or VERIF
    os.makedirs(os.path.join(out_root, "evidence"), exist_ok=True)
    ev_path = os.path.join(out_root, "evidence", f"{prop}.json")
    with open(ev_path, "w") as fh:
        json.dump(evidence, fh, indent=1, sort_keys=True)
        fh.write("\n")
    err = validate_evidence(ev_path)
    if err:
        print(f"BROKEN-CHECK property={prop}: evidence does not validate: {err}")
        return 2

    # ---- report --------------------------------------------------------------------------------------------------
    print(
        f"{prop} {tier} seed={seed}: evaluations={merged['evals']} distinct_nontrivial={merged['nontrivial']} "
        f"states={merged['states']} transitions={merged['transitions']} traces={merged['traces']} "
        f"exhaustive={coverage['exhaustive']} wall={wall:.1f}s"
    )
    if merged["classes"]:
        print("  outcome classes: " + ", ".join(f"{k}={v}" for k, v in sorted(merged["classes"].items())))
    for e in known:
        if e["id"] in known_hits:
            print(f"KNOWN-FINDING: property={prop} {e['id']}: {e['description']}")
    vac = summary.get("vacuity_errors") or []
    if vac and not unknown:
        for m in vac:
            print(f"BROKEN-CHECK property={prop}: vacuous exploration: {m}")
        return 2
    if unknown:
        for i, (sig_key, v) in enumerate(sorted(unknown.items())):
            if i >= MAX_REPLAYS:
                print(f"  ... {len(unknown) - MAX_REPLAYS} further violation signatures not written")
                break
            path = write_replay(prop, v)
            print(f"VIOLATION property={prop} replay={path}")
            print(f"  [{unknown_counts[sig_key]} case(s)] {v['message']}")
        return 1
    return 0


def replay(check_id: str, path: str) -> int:
    mod = _load(check_id)
    with open(path) as fh:
        violation = json.load(fh)
    first = mod.replay(violation["case"])
    second = mod.replay(violation["case"])
    a = json.dumps(jsonable(first), sort_keys=True)
    b = json.dumps(jsonable(second), sort_keys=True)
    if a != b:
        print(f"BROKEN-CHECK property={mod.ID}: replay is not deterministic")
        return 2
    if first:
        for v in first:
            print(f"VIOLATION property={mod.ID} replay={path}")
            print(f"  {v['message']}")
            print(f"  expected={json.dumps(v['expected'])}")
            print(f"  actual  ={json.dumps(v['actual'])}")
        return 1
    print(f"{mod.ID}: replay of {path} shows no violation on the current tree")
    return 0


def main(argv=None) -> int:
    ap = argparse.ArgumentParser()
    ap.add_argument("check")
    ap.add_argument("tier", nargs="?", default=os.environ.get("VERIF_TIER", "quick"))
    ap.add_argument("--replay")
    ap.add_argument("--workers", type=int, default=int(os.environ.get("VERIF_WORKERS", "16")))
    ap.add_argument("--coverage", action="store_true", help="also trace anchored library files (default in the thorough tier)")
    ns = ap.parse_args(argv)
    if ns.tier not in ("quick", "thorough"):
        ap.error("tier must be quick or thorough")
    seed = int(os.environ.get("VERIF_SEED", "0") or 0)
    if ns.replay:
        return replay(ns.check, ns.replay)
    return run(ns.check, ns.tier, seed, ns.workers, ns.coverage or ns.tier == "thorough")


if __name__ == "__main__":
    sys.exit(main())

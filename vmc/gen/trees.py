"""Enumerators of antecedent expression trees (K3)."""

from __future__ import annotations

import itertools


def shapes(n: int):
    """All binary tree shapes with n leaves; a shape is None (leaf) or (left, right)."""
    if n == 1:
        yield None
        return
    for k in range(1, n):
        for left in shapes(k):
            for right in shapes(n - k):
                yield (left, right)


def fill(shape, leaves_iter, ops_iter):
    if shape is None:
        return next(leaves_iter)
    left = fill(shape[0], leaves_iter, ops_iter)
    op = next(ops_iter)
    right = fill(shape[1], leaves_iter, ops_iter)
    return (op, left, right)


def trees(n: int, leaf_alphabet):
    """All trees with n leaves over the leaf alphabet and every and/or labelling of the internal nodes."""
    for shape in shapes(n):
        for ops in itertools.product(("and", "or"), repeat=n - 1):
            for leaves in itertools.product(leaf_alphabet, repeat=n):
                yield fill(shape, iter(leaves), iter(ops))


def count_trees(n: int, n_leaves: int) -> int:
    cat = [1, 1, 2, 5, 14, 42, 132]
    return cat[n - 1] * 2 ** (n - 1) * n_leaves**n

"""Engine recipes: a JSON-able description of an engine, the builder of the real fuzzylite engine from it, and
generators of the recipe sub-spaces shared by C01, C02, C13, C14, C15.

term   {"cls", "name", "params": [...], "height": 1.0}           (Constant: params [k]; Linear: params [c1..cn(,k)])
       {"cls": "Function", "name", "formula": text, "tree": vmc.ref.formula tree}
input  {"name", "enabled", "min", "max", "lock_range", "terms", "description"}
output input + {"lock_previous", "default", "aggregation": name | None, "defuzzifier": [name, param?] | None}
rule   {"ante": rulegrammar tree, "cons": [(var, (hedges...), term)], "weight": None | "0.500", "enabled": True,
        "style": "minimal"}
block  {"name", "enabled", "conjunction", "disjunction", "implication": name | None,
        "activation": ["General"] | ["First", 2, 0.5] | ..., "rules": [...], "description"}
engine {"name", "description", "inputs", "outputs", "blocks"}
"""

from __future__ import annotations

import copy

from ..lib import fl
from ..ref import formula as RF
from ..ref import rulegrammar as RG

NAN = float("nan")


NUMBER = None  # when set (e.g. numpy.float32), every numeric argument of the constructors is given as that scalar type


def num(x):
    if NUMBER is None or isinstance(x, (bool, int, str)) or x is None:
        return x
    return NUMBER(x)


def build_with_number(recipe: dict, number):
    """The same engine with every numeric constructor argument (and rule weight) given as `number` scalars."""
    global NUMBER
    NUMBER = number
    try:
        engine = build(recipe)
        for b, rb in zip(recipe["blocks"], engine.rule_blocks):
            for r, rule in zip(b["rules"], rb.rules):
                if r.get("weight") is not None:
                    rule.weight = number(float(r["weight"]))
        return engine
    finally:
        NUMBER = None


def make_term(t: dict):
    cls = t["cls"]
    if NUMBER is not None and "params" in t:
        t = {**t, "params": [num(p) for p in t["params"]], "height": num(t.get("height", 1.0))}
    if cls == "Function":
        return fl.Function(t["name"], t["formula"], load=True)  # loaded before the engine exists (the engine re-links it)
    if cls == "Constant":
        return fl.Constant(t["name"], t["params"][0])
    if cls == "Linear":
        return fl.Linear(t["name"], list(t["params"]))
    if cls == "Discrete":
        return fl.Discrete(t["name"], fl.Discrete.to_xy(t["params"][0::2], t["params"][1::2]), t.get("height", 1.0))
    return getattr(fl, cls)(t["name"], *t["params"], height=t.get("height", 1.0))


def make_norm(name):
    return None if name is None else getattr(fl, name)()


def make_defuzzifier(d):
    if d is None:
        return None
    name, *params = d
    return getattr(fl, name)(*params)


def make_activation(a):
    if a is None:
        return None
    name, *params = a
    return getattr(fl, name)(*[num(p) if isinstance(p, float) else p for p in params])


def rule_text(r: dict) -> str:
    return RG.rule_text(r["ante"], r["cons"], r.get("weight"), r.get("style", "minimal"))


def build(recipe: dict, flags_by_assignment: bool = False):
    """Construct the real engine through the public constructors. With flags_by_assignment the enabled / lock flags
    and the default value are set on the finished objects instead (what FllImporter and interactive use do).
    A recipe with "shared_objects": True gets ONE operator / defuzzifier instance per distinct description, shared by
    all variables and rule blocks (what Engine.configure-style set-up code and hand-written scripts do)."""
    global make_norm, make_defuzzifier, make_activation
    if recipe.get("via_configure"):
        # operators, activation method and defuzzifier are installed by Engine.configure (by name or as objects)
        how = recipe["via_configure"]
        bare = clone({k: v for k, v in recipe.items() if k != "via_configure"})
        b0, o0 = recipe["blocks"][0], recipe["outputs"][0]
        for b in bare["blocks"]:
            assert [b.get(k) for k in ("conjunction", "disjunction", "implication", "activation")] == \
                   [b0.get(k) for k in ("conjunction", "disjunction", "implication", "activation")]
            b.update(conjunction=None, disjunction=None, implication=None, activation=["General"])
        for o in bare["outputs"]:
            assert (o.get("aggregation"), o.get("defuzzifier")) == (o0.get("aggregation"), o0.get("defuzzifier"))
            o.update(aggregation=None, defuzzifier=None)
        engine = build(bare, flags_by_assignment)
        act = b0.get("activation", ["General"])
        if how == "names":
            engine.configure(b0.get("conjunction"), b0.get("disjunction"), b0.get("implication"), o0.get("aggregation"),
                             o0["defuzzifier"][0] if o0.get("defuzzifier") else None, act[0])
            if o0.get("defuzzifier") and len(o0["defuzzifier"]) > 1:
                d = engine.output_variables[0].defuzzifier
                if hasattr(d, "resolution"):
                    d.resolution = o0["defuzzifier"][1]
                else:
                    d.configure(str(o0["defuzzifier"][1]))
            if len(act) > 1:
                engine.rule_blocks[0].activation.configure(" ".join(str(a) for a in act[1:]))
        else:
            engine.configure(make_norm(b0.get("conjunction")), make_norm(b0.get("disjunction")), make_norm(b0.get("implication")),
                             make_norm(o0.get("aggregation")), make_defuzzifier(o0.get("defuzzifier")), make_activation(act))
        return engine
    if recipe.get("shared_objects"):
        cache: dict = {}

        def shared(maker):
            def make(desc):
                key = (maker.__name__, repr(desc))
                if key not in cache:
                    cache[key] = maker(desc)
                return cache[key]
            return make

        saved = make_norm, make_defuzzifier, make_activation
        make_norm, make_defuzzifier, make_activation = shared(saved[0]), shared(saved[1]), shared(saved[2])
        try:
            return build({k: v for k, v in recipe.items() if k != "shared_objects"}, flags_by_assignment)
        finally:
            make_norm, make_defuzzifier, make_activation = saved
    inputs = [
        fl.InputVariable(
            name=v["name"], description=v.get("description", ""), enabled=v.get("enabled", True), minimum=num(v["min"]),
            maximum=num(v["max"]), lock_range=v.get("lock_range", False), terms=[make_term(t) for t in v["terms"]],
        )
        for v in recipe["inputs"]
    ]
    outputs = [
        fl.OutputVariable(
            name=v["name"], description=v.get("description", ""), enabled=v.get("enabled", True), minimum=num(v["min"]),
            maximum=num(v["max"]), lock_range=v.get("lock_range", False), lock_previous=v.get("lock_previous", False),
            default_value=num(v.get("default", NAN)), aggregation=make_norm(v.get("aggregation")),
            defuzzifier=make_defuzzifier(v.get("defuzzifier")), terms=[make_term(t) for t in v["terms"]],
        )
        for v in recipe["outputs"]
    ]
    blocks = []
    for b in recipe["blocks"]:
        rules = []
        for r in b["rules"]:
            rule = fl.Rule.create(rule_text(r))
            if not flags_by_assignment:
                rule.enabled = r.get("enabled", True)
            rules.append(rule)
        blocks.append(
            fl.RuleBlock(
                name=b["name"], description=b.get("description", ""), enabled=b.get("enabled", True),
                conjunction=make_norm(b.get("conjunction")), disjunction=make_norm(b.get("disjunction")),
                implication=make_norm(b.get("implication")), activation=make_activation(b.get("activation", ["General"])),
                rules=rules,
            )
        )
    if flags_by_assignment:
        # assign the recipe's flag values on the finished objects (independent of how the constructors forward them)
        for objs, descs in ((inputs, recipe["inputs"]), (outputs, recipe["outputs"]), (blocks, recipe["blocks"])):
            for o, d in zip(objs, descs):
                for attr, key in (("enabled", "enabled"), ("lock_range", "lock_range"), ("lock_previous", "lock_previous"),
                                  ("default_value", "default")):
                    if hasattr(o, attr) and key in d:
                        setattr(o, attr, d[key])
    engine = fl.Engine(name=recipe.get("name", "e"), description=recipe.get("description", ""), input_variables=inputs,
                       output_variables=outputs, rule_blocks=blocks)
    if flags_by_assignment:
        # rules are switched off AFTER the engine has loaded them (a run-time switch, not a load-time one)
        for b, rb in zip(recipe["blocks"], engine.rule_blocks):
            for r, rule in zip(b["rules"], rb.rules):
                rule.enabled = r.get("enabled", True)
    return engine


# ---------------------------------------------------------------------------------------------------------------------
# building blocks for recipe generators
# ---------------------------------------------------------------------------------------------------------------------
P = RG.prop


def shape(cls, name, params, height=1.0):
    return {"cls": cls, "name": name, "params": list(params), "height": height}


def in_var(name, lo=0.0, hi=1.0, terms=None, **kw):
    w = hi - lo
    terms = terms or [shape("Triangle", "lo", [lo - w / 2, lo, hi]), shape("Triangle", "hi", [lo, hi, hi + w / 2])]
    return {"name": name, "min": lo, "max": hi, "terms": terms, **kw}


def out_var(name, lo=0.0, hi=1.0, terms=None, aggregation="Maximum", defuzzifier=("Centroid", 16), **kw):
    w = hi - lo
    terms = terms or [shape("Triangle", "lo", [lo, lo + w / 4, lo + w / 2]), shape("Triangle", "hi", [lo + w / 2, lo + 3 * w / 4, hi])]
    return {"name": name, "min": lo, "max": hi, "terms": terms, "aggregation": aggregation,
            "defuzzifier": list(defuzzifier) if defuzzifier else None, **kw}


def rule(ante, cons, weight=None, enabled=True, style="minimal"):
    return {"ante": ante, "cons": [tuple(c) for c in cons], "weight": weight, "enabled": enabled, "style": style}


def block(name, rules, conjunction="Minimum", disjunction="Maximum", implication="Minimum", activation=("General",), **kw):
    return {"name": name, "rules": rules, "conjunction": conjunction, "disjunction": disjunction,
            "implication": implication, "activation": list(activation), **kw}


def engine(name, inputs, outputs, blocks, description=""):
    return {"name": name, "description": description, "inputs": inputs, "outputs": outputs, "blocks": blocks}


def clone(recipe: dict) -> dict:
    return copy.deepcopy(recipe)


def function_term(name: str, tree):
    return {"cls": "Function", "name": name, "formula": RF.render(tree, "minimal"), "tree": tree}

"""Enumerators of formula trees (K3) bounded by operator/function node count."""

from __future__ import annotations

import itertools

from ..ref import formula as F


def all_trees(nodes: int, leaves, unary, binary, fn1, fn2, memo=None):
    """All trees with exactly `nodes` operator/function nodes (well-typedness filtered by the caller)."""
    if memo is None:
        memo = {}
    if nodes in memo:
        return memo[nodes]
    if nodes == 0:
        out = list(leaves)
    else:
        out = []
        for child in all_trees(nodes - 1, leaves, unary, binary, fn1, fn2, memo):
            for op in unary:
                out.append(("un", op, child))
            for f in fn1:
                out.append(("call", f, [child]))
        for k in range(0, nodes):
            lefts = all_trees(k, leaves, unary, binary, fn1, fn2, memo)
            rights = all_trees(nodes - 1 - k, leaves, unary, binary, fn1, fn2, memo)
            for l in lefts:
                for r in rights:
                    for op in binary:
                        out.append(("bin", op, l, r))
                    for f in fn2:
                        out.append(("call", f, [l, r]))
    memo[nodes] = out
    return out


def iter_trees(nodes: int, leaves, unary, binary, fn1, fn2):
    """Lazy version for the top level (children lists are materialised, the top level is streamed)."""
    memo: dict = {}
    if nodes == 0:
        yield from leaves
        return
    for child in all_trees(nodes - 1, leaves, unary, binary, fn1, fn2, memo):
        for op in unary:
            yield ("un", op, child)
        for f in fn1:
            yield ("call", f, [child])
    for k in range(0, nodes):
        lefts = all_trees(k, leaves, unary, binary, fn1, fn2, memo)
        rights = all_trees(nodes - 1 - k, leaves, unary, binary, fn1, fn2, memo)
        for l in lefts:
            for r in rights:
                for op in binary:
                    yield ("bin", op, l, r)
                for f in fn2:
                    yield ("call", f, [l, r])


def chains(operands, ops_alphabet, length: int):
    """Token lists  a o1 b o2 c ...  with `length` binary operators."""
    for ops in itertools.product(ops_alphabet, repeat=length):
        toks = [operands[0]]
        for k, op in enumerate(ops):
            toks += [op, operands[k + 1]]
        yield toks

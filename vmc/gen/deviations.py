"""K4 deviation enumerators over engine recipes (shared by C14 and C15).

A deviation is (group, label, fn) where fn(recipe) mutates a deep copy of a base recipe in ONE field, the field
ranging over its whole alphabet.  `singles(base)` yields every single deviation applicable to the base;
`pairs(base)` every pair of deviations from different groups.
"""

from __future__ import annotations

import itertools

from ..ref import formula as RF
from ..ref import norms as RN
from . import recipes as R

NAN, INF = float("nan"), float("inf")

SHAPE_PARAMS = {
    "Arc": [[0.0, 1.0], [0.75, -0.25]], "Bell": [[0.5, 0.25, 2.0], [0.125, 1.5, 3.0]], "Binary": [[0.5, INF], [0.25, -INF]],
    "Concave": [[0.25, 0.75], [0.75, 0.25]], "Cosine": [[0.5, 0.5], [0.0, 1.25]],
    "Discrete": [[0.0, 0.0, 0.25, 1.0, 0.5, 0.5, 1.0, 0.0], [-1.0, 1.0, 2.0, 0.0], [0.5, 0.75]],
    "Gaussian": [[0.5, 0.25], [-0.5, 1.125]], "GaussianProduct": [[0.25, 0.25, 0.75, 0.5], [0.0, 0.125, 0.5, 1.5]],
    "PiShape": [[0.0, 0.25, 0.5, 1.0], [-1.0, -0.5, 0.5, 2.0]], "Ramp": [[1.0, 0.0], [0.0, 1.0]], "Rectangle": [[0.25, 0.75], [1.0, -1.0]],
    "SemiEllipse": [[0.0, 1.0], [-0.5, 0.5]], "Sigmoid": [[0.5, 8.0], [0.25, -2.5]],
    "SigmoidDifference": [[0.25, 8.0, 8.0, 0.75], [0.0, 1.5, 2.5, 1.0]], "SigmoidProduct": [[0.25, 8.0, -8.0, 0.75], [0.0, 1.5, -2.5, 1.0]],
    "Spike": [[0.5, 1.0], [0.0, 0.25]], "SShape": [[0.0, 1.0], [-0.5, 0.25]],
    "Trapezoid": [[0.0, 0.25, 0.5, 1.0], [-INF, 0.0, 0.5, 1.0], [0.0, 0.5, 1.0, INF]],
    "Triangle": [[0.0, 0.5, 1.0], [-INF, 0.25, 0.75], [0.0, 0.0, 1.0]], "ZShape": [[0.0, 1.0], [0.25, 0.5]],
}
HEIGHTS = [1.0, 0.5, 0.96, 0.9995, 2.0]
WEIGHTS = [None, "0.500", "0.9996", "0.960", "0.12346", "0.000"]


def _set(path, value):
    def fn(r):
        o = r
        for k in path[:-1]:
            o = o[k]
        o[path[-1]] = value
    return fn


def singles(base: dict, numbers=None):
    """All single deviations of the base recipe. `numbers` optionally replaces the numeric alphabets (C15)."""
    n_in, n_out, n_blocks = len(base["inputs"]), len(base["outputs"]), len(base["blocks"])
    out = []
    # --- terms of the first input variable ---------------------------------------------------------------------------
    tname = base["inputs"][0]["terms"][0]["name"]
    for cls, plist in SHAPE_PARAMS.items():
        for p in plist:
            for h in HEIGHTS:
                out.append(("term", f"in0.term0={cls}{p}h{h}", _set(("inputs", 0, "terms", 0), R.shape(cls, tname, p, h))))
    # --- Function / Linear terms inside an INPUT variable (only where no variable is called `x`, which is reserved) ----
    names = [v["name"] for v in base["inputs"] + base["outputs"]]
    if "x" not in names and n_in >= 2:
        other = base["inputs"][1]["name"]
        for toks in (["x", "*", other], ["2.000", "*", other, "+", "x"]):
            tree = RF.parse(toks)
            ft = R.function_term(tname, tree)
            out.append(("term", f"in0.term0=Function({' '.join(toks)})", _set(("inputs", 0, "terms", 0), ft)))
        out.append(("term", "in0.term0=Linear", _set(("inputs", 0, "terms", 0), {"cls": "Linear", "name": tname, "params": [0.5] * n_in + [0.125]})))
    # --- output terms (same kind as the base so that the engine still infers) ---------------------------------------
    o0 = base["outputs"][0]
    oname = o0["terms"][0]["name"]
    if o0["terms"][0]["cls"] in ("Constant", "Linear", "Function"):
        for k in (1.5, NAN, INF, -INF, 0.0, -2.25):
            out.append(("oterm", f"out0.term0=Constant({k})", _set(("outputs", 0, "terms", 0), R.shape("Constant", oname, [k]))))
        for coeffs in ([], [1.0] * n_in, [1.0] * n_in + [0.5], [0.25] * (n_in + 2)):
            out.append(("oterm", f"out0.term0=Linear{coeffs}", _set(("outputs", 0, "terms", 0), {"cls": "Linear", "name": oname, "params": coeffs})))
        a = base["inputs"][0]["name"]
        for toks in (["2.000", "*", a], ["sin", "(", a, ")", "^", "2.000"], ["ge", "(", a, ",", "0.500", ")", "*", "x"],
                     [".-", a, "+", "pi"], [a, "and", "x", "or", "0.000"]):
            tree = RF.parse(toks)
            out.append(("oterm", f"out0.term0=Function({' '.join(toks)})", _set(("outputs", 0, "terms", 0), R.function_term(oname, tree))))
        spaced = R.function_term(oname, RF.parse(["2.000", "*", a, "+", "x"]))
        spaced["formula"] = f"2.000  *  {a} + x"
        out.append(("oterm", "out0.term0=Function(spaced)", _set(("outputs", 0, "terms", 0), spaced)))
    else:
        for cls in ("Triangle", "Ramp", "Gaussian", "Discrete", "Rectangle"):
            for h in (1.0, 0.5):
                out.append(("oterm", f"out0.term0={cls}h{h}", _set(("outputs", 0, "terms", 0), R.shape(cls, oname, SHAPE_PARAMS[cls][0], h))))
    # --- operators -----------------------------------------------------------------------------------------------------
    for b in range(n_blocks):
        for role, alphabet in (("conjunction", RN.TNORMS), ("disjunction", RN.SNORMS), ("implication", RN.TNORMS)):
            for name in [None] + alphabet:
                out.append(("norm", f"block{b}.{role}={name}", _set(("blocks", b, role), name)))
    for o in range(n_out):
        for name in [None] + RN.SNORMS:
            out.append(("norm", f"out{o}.aggregation={name}", _set(("outputs", o, "aggregation"), name)))
    # --- defuzzifiers --------------------------------------------------------------------------------------------------
    for o in range(n_out):
        for d in ["Bisector", "Centroid", "SmallestOfMaximum", "MeanOfMaximum", "LargestOfMaximum"]:
            for res in (None, 100, 7):
                out.append(("defuzzifier", f"out{o}.defuzzifier={d}({res})", _set(("outputs", o, "defuzzifier"), [d] + ([res] if res else []))))
        for d in ["WeightedAverage", "WeightedSum"]:
            for ty in ("Automatic", "TakagiSugeno", "Tsukamoto"):
                out.append(("defuzzifier", f"out{o}.defuzzifier={d}({ty})", _set(("outputs", o, "defuzzifier"), [d, ty])))
        out.append(("defuzzifier", f"out{o}.defuzzifier=None", _set(("outputs", o, "defuzzifier"), None)))
    # --- activation methods -----------------------------------------------------------------------------------------
    acts = [None, ["General"], ["Proportional"]]
    for m in ("First", "Last"):
        acts += [[m, n, t] for n in (1, 3) for t in (0.0, 0.25, 0.5)]
    for m in ("Highest", "Lowest"):
        acts += [[m, n] for n in (1, 2)]
    acts += [["Threshold", c, t] for c in ("<", "<=", "==", "!=", ">=", ">") for t in (0.0, 0.25)]
    for b in range(n_blocks):
        for a in acts:
            out.append(("activation", f"block{b}.activation={a}", _set(("blocks", b, "activation"), a)))
    # --- flags, defaults, ranges -------------------------------------------------------------------------------------
    for i in range(n_in):
        out.append(("flag", f"in{i}.enabled=False", _set(("inputs", i, "enabled"), False)))
        out.append(("flag", f"in{i}.lock_range=True", _set(("inputs", i, "lock_range"), True)))
    for o in range(n_out):
        out.append(("flag", f"out{o}.enabled=False", _set(("outputs", o, "enabled"), False)))
        out.append(("flag", f"out{o}.lock_range=True", _set(("outputs", o, "lock_range"), True)))
        out.append(("flag", f"out{o}.lock_previous=True", _set(("outputs", o, "lock_previous"), True)))
        for d in (0.5, INF, -INF, -0.25):
            out.append(("default", f"out{o}.default={d}", _set(("outputs", o, "default"), d)))
    for b in range(n_blocks):
        out.append(("flag", f"block{b}.enabled=False", _set(("blocks", b, "enabled"), False)))
    for lo, hi in ((-INF, INF), (0.0, INF), (-1.5, 2.25), (0.125, 0.75), (1.0, 0.0), (10.0, -10.0), (0.5, 0.5)):  # incl. descending and zero-width
        def rng(r, lo=lo, hi=hi):
            r["inputs"][0]["min"], r["inputs"][0]["max"] = lo, hi
        out.append(("range", f"in0.range=({lo},{hi})", rng))
        def orng(r, lo=lo, hi=hi):
            r["outputs"][0]["min"], r["outputs"][0]["max"] = lo, hi
        out.append(("range", f"out0.range=({lo},{hi})", orng))
    # --- descriptions, names, weights ----------------------------------------------------------------------------------
    def empty_block(r):
        r["blocks"].append({"name": "placeholder", "description": "no rules yet", "enabled": False, "conjunction": "Minimum",
                            "disjunction": None, "implication": "AlgebraicProduct", "activation": ["Highest", 2], "rules": []})
    out.append(("block", "blocks+=empty block", empty_block))
    def no_rules(r):
        r["blocks"][-1]["rules"] = []
    out.append(("block", "last block without rules", no_rules))
    out.append(("block", "no rule blocks at all", _set(("blocks",), [])))
    for text in ("some text", "with: a colon and, punctuation", "x", "form\x0cfeed, vertical\x0btab, line\u2028separator"):
        out.append(("description", f"engine.description={text!r}", _set(("description",), text)))
        out.append(("description", f"in0.description={text!r}", _set(("inputs", 0, "description"), text)))
        out.append(("description", f"out0.description={text!r}", _set(("outputs", 0, "description"), text)))
        out.append(("description", f"block0.description={text!r}", _set(("blocks", 0, "description"), text)))
    for name in ("Engine_1", "_e", "tipper2"):
        out.append(("name", f"engine.name={name}", _set(("name",), name)))
    for name in ("", "rules_1"):
        out.append(("name", f"block0.name={name!r}", _set(("blocks", 0, "name"), name)))
    for b in range(n_blocks):
        for k in range(len(base["blocks"][b]["rules"])):
            for w in WEIGHTS:
                out.append(("weight", f"block{b}.rule{k}.weight={w}", _set(("blocks", b, "rules", k, "weight"), w)))
    return out


def apply(base: dict, fns) -> dict:
    r = R.clone(base)
    for fn in fns:
        fn(r)
    return r


def pairs(base: dict):
    s = singles(base)
    for (g1, l1, f1), (g2, l2, f2) in itertools.combinations(s, 2):
        if g1 != g2:
            yield (f"{g1}+{g2}", f"{l1} & {l2}", (f1, f2))

"""Enumerators of valid term parameterisations and of evaluation points (DESIGN 3.1, C03/C11)."""

from __future__ import annotations

import itertools
import math

from ..lib import fl, seed_phase

INF = float("inf")
NAN = float("nan")

SHAPES = [
    "Arc", "Bell", "Binary", "Concave", "Cosine", "Discrete", "Gaussian", "GaussianProduct", "PiShape", "Ramp",
    "Rectangle", "SemiEllipse", "Sigmoid", "SigmoidDifference", "SigmoidProduct", "Spike", "SShape", "Trapezoid",
    "Triangle", "ZShape",
]
MONOTONIC = ["Arc", "Concave", "Ramp", "Sigmoid", "SShape", "ZShape"]

DYADIC = [-1.0, -0.5, 0.0, 0.25, 0.5, 1.0, 2.0]
DECIMAL = [0.1, 0.3, 0.7, 0.9]
HEIGHTS = [1.0, 0.5, 0.25, 0.7, 0.9995]  # the last one is within the library comparison tolerance of 1


def positions(tier: str, seed: int) -> list[float]:
    u = seed_phase(seed)
    extra = [round(u, 6), round(1.0 + u / 3.0, 6)]  # seed-phased, inexact decimals
    vals = DYADIC + DECIMAL + extra
    if tier == "thorough":
        vals = vals + [-0.3, 0.6, 1.7, 0.2]
    return sorted(set(vals))


# terms far from the origin relative to their width (|slope x inflection| > 709 for the sigmoid: a factored exponential
# overflows; large coordinates with a small span: single-precision arithmetic loses the span)
FAR = {
    "Sigmoid": [[40.0, 20.0], [-100.0, -30.0], [1000.0, 1.0], [-1000.0, 1.0]],
    # (ranges so wide / narrow that a square of the width overflows / underflows while every quotient is ordinary)
    "SShape": [[1000.0, 1000.5], [-20000.0, -19900.0], [-1e200, 1e200], [0.0, 1e-170]],
    "ZShape": [[1000.0, 1000.5], [-20000.0, -19900.0], [-1e200, 1e200], [0.0, 1e-170]],
    "PiShape": [[-1e200, -1e199, 1e199, 1e200]],
    "Spike": [[0.0, -1.0], [0.5, -0.25]],  # the documented form takes the absolute value of the whole exponent
    # (narrower than the library's comparison tolerance 1e-3: still a ramp)
    "Ramp": [[1000.0, 1000.5], [1000.5, 1000.0], [0.5, 0.5005], [0.5005, 0.5], [0.25, 0.25 + 2.0**-12]],
    # (zero width, inflection == end: the documented first case gives 0 below the end, the second 0 above it, h at it)
    "Concave": [[1000.0, 1000.5], [1000.5, 1000.0], [0.5, 0.5], [0.0, 0.0], [-0.25, -0.25], [0.3, 0.3]],
    "Arc": [[1000.0, 1000.5], [1000.5, 1000.0]],
    "Rectangle": [[0.5, 0.5], [0.0, 0.0]],
    "Gaussian": [[1000.0, 0.25]],
    "Bell": [[1000.0, 0.25, 2.0]],
    "Triangle": [[1000.0, 1000.25, 1000.5]],
    "SigmoidDifference": [[1000.0, 4.0, 8.0, 1000.5]],
    "SigmoidProduct": [[1000.0, 4.0, -8.0, 1000.5]],
}


def param_sets(cls: str, tier: str, seed: int) -> list[list[float]]:
    """All valid parameter tuples of the term class over the position alphabet (plus the far-from-origin ones)."""
    return _param_sets(cls, tier, seed) + FAR.get(cls, [])


def _param_sets(cls: str, tier: str, seed: int) -> list[list[float]]:
    V = positions(tier, seed)
    small = sorted(set(DYADIC[1:6] + DECIMAL[:3] + [positions(tier, seed)[3]]))
    widths = [0.25, 0.5, 1.0, 2.0, 0.3] + ([0.7, 4.0] if tier == "thorough" else [])
    if cls in ("Arc", "Ramp", "Concave"):
        return [[s, e] for s, e in itertools.permutations(V, 2)]
    if cls in ("Rectangle", "SemiEllipse"):
        return [[s, e] for s, e in itertools.permutations(V, 2)]
    if cls in ("SShape", "ZShape"):
        # start < end, plus the degenerate vertical edge start == end (a step at that point)
        return [[s, e] for s, e in itertools.combinations(V, 2)] + [[v, v] for v in V]
    if cls == "Binary":
        return [[s, d] for s in V for d in (INF, -INF)]
    if cls == "Bell":
        return [[c, w, s] for c in small for w in widths for s in (0.5, 1.0, 2.0, 3.0)]
    if cls in ("Cosine", "Gaussian", "Spike"):
        return [[c, w] for c in V for w in widths]
    if cls == "Sigmoid":
        slopes = [0.5, 1.0, 2.0, 10.0, 0.3]
        return [[i, sg * s] for i in V for s in slopes for sg in (1.0, -1.0)]
    if cls == "GaussianProduct":
        return [[ma, sa, mb, sb] for ma, mb in itertools.combinations_with_replacement(small, 2)
                for sa in (0.25, 1.0, 0.3) for sb in (0.5, 0.3)]
    if cls == "SigmoidDifference":
        return [[l, ri, fa, r] for l, r in itertools.combinations(small, 2) for ri in (1.0, 4.0, 0.3)
                for fa in (1.0, 8.0, 0.7)]
    if cls == "SigmoidProduct":
        return [[l, ri, fa, r] for l, r in itertools.combinations(small, 2) for ri in (1.0, 4.0, 0.3)
                for fa in (-1.0, -8.0, -0.7)]
    if cls == "Triangle":
        out = [[a, b, c] for a, b, c in itertools.combinations_with_replacement(V, 3) if a < c]
        out += [[-INF, b, c] for b, c in itertools.combinations_with_replacement(small, 2)]
        out += [[a, b, INF] for a, b in itertools.combinations_with_replacement(small, 2)]
        out += [[-INF, b, INF] for b in small]
        return out
    if cls == "Trapezoid":
        W = small if tier == "quick" else V
        out = [[a, b, c, d] for a, b, c, d in itertools.combinations_with_replacement(W, 4) if a < d]
        out += [[-INF, b, c, d] for b, c, d in itertools.combinations_with_replacement(small, 3)]
        out += [[a, b, c, INF] for a, b, c in itertools.combinations_with_replacement(small, 3)]
        out += [[-INF, b, c, INF] for b, c in itertools.combinations_with_replacement(small, 2)]
        return out
    if cls == "PiShape":
        W = small if tier == "quick" else V
        # bottom_left <= top_left <= top_right <= bottom_right with vertical edges allowed on either side
        return [[a, b, c, d] for a, b, c, d in itertools.combinations_with_replacement(W, 4) if a < d and (a < b or c < d)]
    if cls == "Discrete":
        return [
            [0.0, 0.0, 0.25, 1.0, 0.5, 0.5, 1.0, 0.0],
            [-1.0, 1.0, 2.0, 0.0],
            [0.5, 0.75],
            [0.1, 0.0, 0.3, 0.7, 0.7, 0.3, 0.9, 1.0],
            [0.0, 1.0, 0.5, 0.0, 1.0, 1.0],
            [-0.5, 0.25, 0.0, 0.25, 0.25, 1.0],
            # vertical edges: consecutive pairs with the same x (the value AT a repeated x is left open, see c03)
            [0.0, 0.0, 1.0, 0.0, 1.0, 1.0, 2.0, 1.0],
            [0.0, 0.25, 0.5, 0.25, 0.5, 1.0, 0.5, 0.5, 1.0, 0.0],
            [0.0, 0.25, 0.0, 0.5, 1.0, 1.0],
            [0.0, 0.25, 1.0, 0.5, 1.0, 1.0],
        ]
    if cls == "Constant":
        return [[0.5], [-2.0], [1.5], [0.0]]
    raise KeyError(cls)


def breakpoints(cls: str, p: list[float]) -> list[float]:
    """Break points of the definition (beyond the parameters themselves)."""
    if cls in ("SShape", "ZShape"):
        return [p[0], p[1], 0.5 * (p[0] + p[1])]
    if cls == "PiShape":
        return p + [0.5 * (p[0] + p[1]), 0.5 * (p[2] + p[3])]
    if cls in ("Cosine",):
        return [p[0], p[0] - 0.5 * p[1], p[0] + 0.5 * p[1]]
    if cls == "Concave":
        return [p[0], p[1], 0.5 * (p[0] + p[1]), 2.0 * p[1] - p[0]]  # the last one is the pole of the unused branch
    if cls in ("SemiEllipse", "Rectangle", "Arc", "Ramp"):
        return [p[0], p[1], 0.5 * (p[0] + p[1])]
    if cls in ("Bell",):
        return [p[0], p[0] - p[1], p[0] + p[1]]
    if cls in ("Gaussian", "Spike"):
        return [p[0], p[0] - p[1], p[0] + p[1]]
    if cls == "Sigmoid":
        return [p[0]]
    if cls in ("SigmoidDifference", "SigmoidProduct"):
        return [p[0], p[3]]
    if cls == "GaussianProduct":
        return [p[0], p[2]]
    if cls == "Binary":
        return [p[0]]
    if cls == "Discrete":
        return p[0::2]
    if cls == "Constant":
        return [0.0, 1.0]
    return list(p)


def x_points(cls: str, p: list[float], tier: str, seed: int) -> list[float]:
    """Sorted evaluation points: boundary set of the break points, a lattice over the support, +-inf (NaN is added
    by the caller)."""
    bps = sorted({b for b in breakpoints(cls, p) if math.isfinite(b)})
    pts: set[float] = set()
    steps = 1 if tier == "quick" else 3
    for b in bps:
        lo = hi = b
        pts.add(b)
        pts.update((b - 2.0**-12, b + 2.0**-12))  # inside the library comparison tolerance (1e-3) of the break point
        for _ in range(steps):
            lo = math.nextafter(lo, -INF)
            hi = math.nextafter(hi, INF)
            pts.update((lo, hi))
    for a, b in zip(bps, bps[1:]):
        pts.add(0.5 * (a + b))
    lo, hi = (bps[0], bps[-1]) if bps else (0.0, 1.0)
    pts.update((lo - 1.0, hi + 1.0, -1e6, 1e6, -INF, INF))
    n = 32 if tier == "quick" else 256
    span = (hi - lo) or 1.0
    u = seed_phase(seed)
    for k in range(n + 1):
        pts.add(lo - 0.25 * span + 1.5 * span * k / n)
    for k in range(8):
        pts.add(lo + span * (k + u) / 8)
    return sorted(pts)


def make_term(cls: str, name: str, params: list[float], height: float = 1.0):
    """Construct the real fuzzylite term through its public constructor."""
    ctor = getattr(fl, cls)
    if cls == "Constant":
        return ctor(name, params[0])
    if cls == "Discrete":
        return ctor(name, fl.Discrete.to_xy(params[0::2], params[1::2]), height)
    return ctor(name, *params, height=height)

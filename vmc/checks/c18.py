"""C18 - a FuzzyLite Dataset export is a faithful tabulation of the engine.

K1: engines with 1-4 inputs x EVERY requested size v in 1..V for both scopes (all perfect powers included by
construction) x header/inputs/outputs switches x separators x decimals; reader contents: all arrangements of <= 5
lines over {row, blank, comment, indented row, indented comment} x skip_lines 0..2.
Oracle: vmc.ref.fld (integer root, itertools.product grid) and, for the outputs, the engine's own result for each
row processed on its own with Python floats on a separate copy.
"""

from __future__ import annotations

import io
import itertools
import re

from ..explore import Acc
from ..lib import fl, reset_settings
from ..ref import fld as R

ID = "C18"
LEVEL = "model_checking"
RANGES = [(0.0, 1.0), (-1.0, 1.0), (2.0, 6.0), (0.0, 1.0)]
SEPARATORS = [" ", ",", "\t", "; "]
DECIMALS = [3, 1, 6]
SWITCHES = list(itertools.product((True, False), repeat=3))  # headers, inputs, outputs
NUM = re.compile(r"^-?\d+\.\d+$|^nan$|^-?inf$")


def build(n: int, disabled_last: bool = False, descending: bool = False, edited: bool = False, ranges=None):
    inputs = []
    for k in range(n):
        lo, hi = (ranges or RANGES)[k]
        m = (lo + hi) / 2
        inputs.append(fl.InputVariable(f"i{k + 1}", minimum=lo, maximum=hi,
                                       terms=[fl.Triangle("lo", lo, lo, hi), fl.Triangle("hi", lo, hi, hi),
                                              fl.Rectangle("mid", m - (hi - lo) / 8, m + (hi - lo) / 8)]))
    out1 = fl.OutputVariable("o1", minimum=0.0, maximum=10.0, defuzzifier=fl.WeightedAverage(),
                             terms=[fl.Constant("a", 1.0), fl.Constant("b", 9.0), fl.Linear("c", [1.0] * n + [0.5])])
    out2 = fl.OutputVariable("o2", minimum=0.0, maximum=1.0, aggregation=fl.Maximum(), defuzzifier=fl.Centroid(16),
                             lock_previous=True, default_value=0.5,
                             terms=[fl.Triangle("a", 0.0, 0.25, 0.5), fl.Triangle("b", 0.5, 0.75, 1.0)])
    ante_lo = " and ".join(f"i{k + 1} is lo" for k in range(n))
    ante_hi = " or ".join(f"i{k + 1} is hi" for k in range(n))
    rules = [f"if {ante_lo} then o1 is a", f"if {ante_hi} then o1 is b and o2 is b", "if i1 is mid then o1 is c and o2 is a"]
    rb = fl.RuleBlock("rb", conjunction=fl.AlgebraicProduct(), disjunction=fl.Maximum(), implication=fl.Minimum(),
                      activation=fl.General(), rules=[fl.Rule.create(r) for r in rules])
    if edited:  # the first term of the first input has another shape (same name)
        lo, hi = (ranges or RANGES)[0]
        inputs[0].terms[0] = fl.Ramp("lo", lo, hi)
    if descending:
        for iv in inputs[::2]:  # every other input runs from a larger minimum down to a smaller maximum
            iv.minimum, iv.maximum = iv.maximum, iv.minimum
    if disabled_last:
        inputs[-1].enabled = False  # a disabled input variable is still a column of the grid
        out2.enabled = False        # ... and a disabled output variable still a column of the table (its value stays nan)
    return fl.Engine(f"e{n}", input_variables=inputs, output_variables=[out1, out2], rule_blocks=[rb])


def limits(tier: str, n: int):
    big = 300 if tier == "quick" else 2000
    each = {1: 40, 2: 12, 3: 7, 4: 5} if tier == "quick" else {1: 400, 2: 60, 3: 20, 4: 11}
    return big, each[n]


def plan(tier: str, seed: int):
    shards = []
    for n in (1, 2, 3, 4):
        for part in range(8):
            shards.append(("scope", n, part, 8))
    shards += [("reader", 2, p, 4) for p in range(4)]
    shards += [("scope-disabled", n, p, 2) for n in (2, 3) for p in range(2)]
    shards += [("scope-descending", n, p, 2) for n in (1, 2, 3) for p in range(2)]
    shards += [("scope-fine", 1, 0, 1), ("scope-edited", 2, 0, 1)]
    return shards


class Oracle:
    """Outputs of the engine for single rows, processed sequentially from a restarted engine (lock-previous aware)."""

    def __init__(self, engine) -> None:
        self.engine = engine.copy()

    def table(self, rows):
        e = self.engine
        e.restart()
        out = []
        for row in rows:
            for iv, x in zip(e.input_variables, row):
                iv.value = float(x)
            e.process()
            out.append([float(ov.value) for ov in e.output_variables])
        return out


def expected_text(engine, rows, outs, headers, inputs, outputs, sep, d):
    lines = []
    if headers:
        names = ([iv.name for iv in engine.input_variables] if inputs else []) + \
                ([ov.name for ov in engine.output_variables] if outputs else [])
        if names:
            lines.append(sep.join(names))
    for row, out in zip(rows, outs):
        vals = (list(row) if inputs else []) + (list(out) if outputs else [])
        lines.append(sep.join(R.fmt(v, d) for v in vals))
    return lines


def compare(acc: Acc, case, text: str, want_lines, sep: str, d: int, n_rows: int) -> None:
    got_lines = text.split("\n")
    if got_lines and got_lines[-1] == "":
        got_lines = got_lines[:-1]
    if len(got_lines) != len(want_lines):
        n, v = case.get("inputs_n", 0), case.get("values", 0)
        power = bool(n > 1 and case.get("scope") == "AllVariables" and R.iroot(v, n) ** n == v)
        acc.violate("row-count", {"scope": case.get("scope", "reader"), "perfect_power": power}, case, len(want_lines), len(got_lines),
                    f"{case}: export has {len(got_lines)} lines, expected {len(want_lines)}")
        return
    for k, (g, w) in enumerate(zip(got_lines, want_lines)):
        if g == w:
            continue
        gt, wt = g.split(sep) if sep else [g], w.split(sep) if sep else [w]
        header = bool(wt) and not NUM.match(wt[0])
        ok = len(gt) == len(wt) and not header
        if ok:
            n_exact = case.get("inputs_n", 0) if case.get("input_values", True) else 0
            for col, (a, b) in enumerate(zip(gt, wt)):
                if a == b:
                    continue
                if col < n_exact and "reader" not in case:
                    ok = False  # an input cell is a grid point: its numeral is determined exactly (no rounding slack)
                    break
                if not (NUM.match(a) and len(a.split(".")[-1]) == d and abs(float(a) - float(b)) <= 1.0000001 * 10.0**-d):
                    ok = False
                    break
            if ok:
                acc.cls("last_digit_rounding")
        if not ok:
            acc.violate("line", {"what": "header" if header else "row"}, {**case, "line": k}, w, g,
                        f"{case}: line {k} is {g!r}, expected {w!r}")
            return


def run_scope(acc: Acc, engine, oracle: Oracle, n: int, v: int, scope: str, combos, extra: dict | None = None) -> None:
    ranges = [(iv.minimum, iv.maximum) for iv in engine.input_variables]
    rows = R.grid(ranges, v, scope)
    outs = oracle.table(rows)
    acc.traces += 1
    acc.states += len(rows)
    for (headers, inputs, outputs), sep, d in combos:
        if not inputs and not outputs:
            continue  # no column selected: nothing to tabulate, nothing demanded
        case = {"inputs_n": n, "values": v, "scope": scope, "headers": headers, "input_values": inputs,
                "output_values": outputs, "separator": sep, "decimals": d,
                "disabled_last_input": not engine.input_variables[-1].enabled,
                "descending": engine.input_variables[0].minimum > engine.input_variables[0].maximum, **(extra or {})}
        acc.case((n, v, scope, headers, inputs, outputs, sep, d), nontrivial=len(rows) > 1)
        acc.transitions += 1
        exporter = fl.FldExporter(separator=sep, headers=headers, input_values=inputs, output_values=outputs)
        # the engine has been used before the export (finite outputs, lock-previous on o2): the dataset must not depend on it
        for iv in engine.input_variables:
            iv.value = iv.maximum
        engine.process()
        fl.settings.decimals = d
        try:
            text = exporter.to_string_from_scope(engine, v, getattr(fl.FldExporter.ScopeOfValues, scope))
            if v <= 6 and (headers, inputs, outputs) == (True, True, True):
                import os
                import pathlib
                import tempfile
                fd, tmp = tempfile.mkstemp(prefix="vmc-fld-")
                os.close(fd)
                try:
                    exporter.to_file_from_scope(pathlib.Path(tmp), engine, v, getattr(fl.FldExporter.ScopeOfValues, scope))
                    if pathlib.Path(tmp).read_text() != text:
                        acc.violate("file-differs", {}, case, text[:80], pathlib.Path(tmp).read_text()[:80], f"{case}: to_file_from_scope writes a different dataset")
                finally:
                    os.unlink(tmp)
            if v <= 12 and exporter.to_string_from_scope(engine, v, getattr(fl.FldExporter.ScopeOfValues, scope)) != text:
                acc.violate("not-repeatable", {}, case, text[:120], "differs", f"{case}: exporting twice gives different datasets")
        finally:
            fl.settings.decimals = 3
        want = expected_text(engine, rows, outs, headers, inputs, outputs, sep, d)
        compare(acc, case, text, want, sep, d, len(rows))
    k = R.iroot(v, n)
    if scope == "AllVariables" and k**n == v and n > 1:
        acc.cls("perfect_power")


def combos_for(v: int, idx: int):
    full = [(sw, sep, d) for sw in SWITCHES for sep in SEPARATORS for d in DECIMALS]
    if v <= 12:
        return full
    return [full[0], full[(7 * idx + v) % len(full)]]


READER_ALPHABET = ["ROW", "", "# a comment", "   ROW", "   # indented comment"]
READER_ALPHABET_WIDE = READER_ALPHABET + ["ROWTAB", "ROW3"]  # values separated by a tab / by three blanks


def run_reader(acc: Acc, engine, oracle: Oracle, symbols, skip: int, sep: str = " ") -> None:
    lines, k = [], 0
    for s in symbols:
        if "ROW" in s:
            k += 1
            vals = [0.125 * k, 1.0 - 0.25 * k]
            gap = "\t" if "ROWTAB" in s else ("   " if "ROW3" in s else " ")
            lines.append(s.replace("ROWTAB", "ROW").replace("ROW3", "ROW").replace("ROW", gap.join(f"{x:.3f}" for x in vals)))
        else:
            lines.append(s)
    content = "\n".join(lines) + ("\n" if lines else "")
    rows = R.reader_rows(lines, skip)
    case = {"reader": lines, "skip_lines": skip, "separator": sep}
    acc.case((symbols, skip, sep), nontrivial=len(rows) >= 1)
    acc.transitions += 1
    try:
        text = (fl.FldExporter() if sep == " " else fl.FldExporter(separator=sep)).to_string_from_reader(engine, io.StringIO(content), skip)
    except ValueError as ex:
        if rows:
            acc.violate("reader-raises", {}, case, f"{len(rows)} rows", repr(ex), f"reader export raised {ex!r}")
        else:
            acc.cls("reader_empty_rejected")
        return
    outs = oracle.table(rows)
    acc.traces += 1
    want = expected_text(engine, rows, outs, True, True, True, sep, 3)
    compare(acc, case, text, want, sep, 3, len(rows))
    acc.cls("reader_rows_%d" % min(len(rows), 3))


def run_shard(tier: str, seed: int, shard):
    kind, n, part, parts = shard
    acc = Acc(ID)
    reset_settings()
    if kind == "scope-fine":
        # grid steps that end in 5 one digit below the printed precision: every cell is the correctly rounded decimal
        for rng, v, d in (((0.0, 0.01), 5, 3), ((0.0, 1.0), 201, 2), ((0.0, 0.1), 41, 3), ((-1.0, 1.0), 401, 2)):
            engine = build(1, ranges=[rng])
            oracle = Oracle(engine)
            for scope in ("EachVariable", "AllVariables"):
                acc.guard({"inputs_n": 1, "values": v, "scope": scope, "fine": [list(rng), d]}, run_scope, acc, engine, oracle, 1, v, scope,
                          [((True, True, True), " ", d)], {"fine": [list(rng), d]})
                acc.cls("fine_grids")
        reset_settings()
        return acc.result()
    if kind == "scope-edited":
        # a term object replaced AFTER the rules were loaded: the dataset is what the engine (with the new term) produces
        engine = build(n)
        lo, hi = RANGES[0]
        engine.input_variables[0].terms[0] = fl.Ramp("lo", lo, hi)
        oracle = Oracle(build(n, edited=True))
        for v, scope in ((1, "AllVariables"), (9, "AllVariables"), (25, "AllVariables"), (3, "EachVariable"), (5, "EachVariable")):
            acc.guard({"inputs_n": n, "values": v, "scope": scope, "edited": True}, run_scope, acc, engine, oracle, n, v, scope, combos_for(v, 0)[:1], {"edited": True})
            acc.cls("edited_engines")
        reset_settings()
        return acc.result()
    engine = build(n, disabled_last=(kind == "scope-disabled"), descending=(kind == "scope-descending"))
    oracle = Oracle(engine)
    if kind == "scope-descending":
        jobs = [(v, "AllVariables") for v in range(1, 70 if tier == "quick" else 300)] + [(v, "EachVariable") for v in range(1, 8 if tier == "quick" else 12)]
        for idx, (v, scope) in enumerate(jobs):
            if idx % parts == part:
                acc.guard({"inputs_n": n, "values": v, "scope": scope, "descending": True}, run_scope, acc, engine, oracle, n, v, scope, combos_for(v, idx)[:1])
                acc.cls("descending_ranges")
    elif kind == "scope-disabled":
        for idx, v in enumerate(range(1, 70 if tier == "quick" else 300)):
            if idx % parts == part:
                acc.guard({"inputs_n": n, "values": v, "scope": "AllVariables", "disabled_last_input": True}, run_scope, acc, engine,
                          oracle, n, v, "AllVariables", combos_for(v, idx)[:1])
    elif kind == "scope":
        big, each = limits(tier, n)
        jobs = [(v, "AllVariables") for v in range(1, big + 1)] + [(v, "EachVariable") for v in range(1, each + 1)]
        for idx, (v, scope) in enumerate(jobs):
            if idx % parts != part:
                continue
            case = {"inputs_n": n, "values": v, "scope": scope}
            acc.guard(case, run_scope, acc, engine, oracle, n, v, scope, combos_for(v, idx))
        if part == 0 and n == 3:
            acc.sample({"inputs": 3, "values": 64, "scope": "AllVariables", "expected_rows": len(R.grid(RANGES[:3], 64, "AllVariables")),
                        "first_rows": R.grid(RANGES[:3], 64, "AllVariables")[:3]}, 1)
    else:
        idx = 0
        for L in range(0, 6):
            for symbols in itertools.product(READER_ALPHABET, repeat=L):
                for skip in (0, 1, 2):
                    idx += 1
                    if idx % parts != part:
                        continue
                    acc.guard({"reader": list(symbols), "skip_lines": skip}, run_reader, acc, engine, oracle, symbols, skip)
        # rows whose values are separated by a tab / several blanks, and exporters with another column separator
        for L in range(1, 4):
            for symbols in itertools.product(READER_ALPHABET_WIDE, repeat=L):
                if not any(x in ("ROWTAB", "ROW3") for x in symbols):
                    continue
                idx += 1
                if idx % parts != part:
                    continue
                sep = SEPARATORS[idx % len(SEPARATORS)]
                acc.guard({"reader": list(symbols), "skip_lines": 0, "separator": sep}, run_reader, acc, engine, oracle, symbols, 0, sep)
                acc.cls("reader_wide")
    reset_settings()
    return acc.result()


def summarize(tier: str, seed: int, merged: dict) -> dict:
    c = merged["classes"]
    vac = [f"outcome class {k} is empty" for k in ("perfect_power", "reader_rows_2", "reader_empty_rejected") if not c.get(k)]
    return {
        "rule": (
            f"engines with 1..4 inputs; AllVariables: every v in 1..{limits(tier, 1)[0]}; EachVariable: v up to "
            f"{[limits(tier, n)[1] for n in (1, 2, 3, 4)]} for 1..4 inputs; all 8 switch x 4 separator x 3 decimals "
            "combinations for v <= 12, the default plus one rotating combination above; also with a disabled last input / output and with "
            "descending ranges (minimum > maximum) on every other input; reader: all arrangements of <= 5 "
            f"lines over {READER_ALPHABET} x skip_lines 0..2. states = grid rows tabulated by the reference, transitions = "
            "exports compared, traces = reference tables computed by processing the engine row by row; non-trivial = "
            "more than one row"
        ),
        "exhaustive": True,
        "vacuity_errors": vac,
        "assumptions": ["a reader with no data rows may be rejected with ValueError (counted, not judged)"],
    }


def replay(case: dict):
    acc = Acc(ID)
    reset_settings()
    if "reader" in case:
        engine = build(2)
        syms = []
        for line in case["reader"]:
            syms.append(re.sub(r"-?\d+\.\d+(\t| {3}| )-?\d+\.\d+", lambda m: {"\t": "ROWTAB", "   ": "ROW3", " ": "ROW"}[m.group(1)], line))
        acc.guard(case, run_reader, acc, engine, Oracle(engine), tuple(syms), case["skip_lines"], case.get("separator", " "))
    else:
        n = case["inputs_n"]
        if case.get("fine"):
            engine = build(1, ranges=[tuple(case["fine"][0])])
            acc.guard(case, run_scope, acc, engine, Oracle(engine), 1, case["values"], case["scope"], [((True, True, True), " ", case["fine"][1])], {"fine": case["fine"]})
            reset_settings()
            return acc.violations
        if case.get("edited"):
            engine = build(n)
            lo, hi = RANGES[0]
            engine.input_variables[0].terms[0] = fl.Ramp("lo", lo, hi)
            acc.guard(case, run_scope, acc, engine, Oracle(build(n, edited=True)), n, case["values"], case["scope"], combos_for(case["values"], 0)[:1], {"edited": True})
            reset_settings()
            return acc.violations
        engine = build(n, disabled_last=bool(case.get("disabled_last_input")), descending=bool(case.get("descending")))
        combo = [((case.get("headers", True), case.get("input_values", True), case.get("output_values", True)),
                  case.get("separator", " "), case.get("decimals", 3))]
        acc.guard(case, run_scope, acc, engine, Oracle(engine), n, case["values"], case["scope"], combo)
    reset_settings()
    return acc.violations

"""C16 - malformed rule and FLL text is rejected cleanly, never accepted or crashed on.

K3 grammar-bounded enumeration of texts:
  frame       all strings of <= 6 symbols over {if, then, with, <antecedent chunk>, <consequent chunk>, 0.5, zz}
  antecedent  all token strings of length <= L over 12 tokens placed in `if ... then o is t`
  consequent  all token strings of length <= L over 10 tokens placed in `if a is t then ...` (with / without weight)
  edits       every valid rule of C06's small trees with exactly ONE edit at EVERY position (delete, duplicate,
              substitute unknown name / keyword / number / parenthesis, insert or delete a parenthesis, truncate at
              every token boundary, non-numeric weight, trailing token, swap adjacent tokens)
  fll         valid FLL documents with every line deleted / duplicated / moved, truncation at every token boundary,
              every value token substituted, every key misspelt
  depth       parenthesis nesting and operand chains of 8, 64, 256
  termless    all token strings of length <= L over 8 tokens that mention an input variable WITHOUT terms
Oracle: vmc.ref.rulegrammar classifies each rule text; a failure must be a syntax/value/lookup error (never an
internal error) and must leave the rule unloaded; VALID must be accepted; a listed-class single edit that makes the
text invalid must be rejected; anything accepted must be exportable, re-creatable from its text and evaluable.
"""

from __future__ import annotations

import itertools

from ..explore import Acc
from ..gen import trees as T
from ..lib import fl
from ..oracle import ALLOWED_REJECTIONS
from ..ref import rulegrammar as RG
from . import c06

ID = "C16"
LEVEL = "model_checking"

ANTE_TOKENS = ["a", "o", "is", "t", "very", "not", "any", "and", "or", "(", ")", "zz"]
CONS_TOKENS = ["o", "p", "a", "is", "t", "w", "very", "any", "and", "zz"]
FRAME_SYMBOLS = ["if", "then", "with", "a is t", "o is t", "0.5", "zz"]
TERMLESS_TOKENS = ["e", "a", "is", "any", "not", "t", "and", "or"]

# single-edit classes that the statement lists ("never accepted")
LISTED = {"delete-keyword", "delete-variable", "delete-term", "delete-operand", "delete-operator", "unknown-name",
          "insert-paren", "delete-paren", "non-numeric-weight", "missing-weight", "trailing-token", "truncate"}


def small_engine():
    def terms():
        return [fl.Triangle("t", 0.0, 0.5, 1.0), fl.Ramp("u", 0.0, 1.0)]

    return fl.Engine(
        "e",
        input_variables=[fl.InputVariable("a", minimum=0.0, maximum=1.0, terms=terms()),
                         fl.InputVariable("b", minimum=0.0, maximum=1.0, terms=terms()),
                         fl.InputVariable("e", minimum=0.0, maximum=1.0, terms=[])],  # a variable without terms
        output_variables=[fl.OutputVariable("o", minimum=0.0, maximum=1.0, terms=terms()),
                          fl.OutputVariable("p", minimum=0.0, maximum=1.0, terms=[fl.Ramp("w", 0.0, 1.0)])],
        rule_blocks=[fl.RuleBlock("rb")],
    )


# (the term-less variable `e` is not in the reference vocabulary: whether `e is any` is a sentence is left open, so only
# "accepted => usable" and "rejected => cleanly and unloaded" are demanded of texts that mention it)
SMALL_VOCAB = {"a": {"t", "u"}, "b": {"t", "u"}, "o": {"t", "u"}, "p": {"w"}}   # `t` is NOT a term of the output p
SMALL_OUT = {"o": {"t", "u"}, "p": {"w"}}
C06_OUT = {"o": {"p", "q"}}


class Ctx:
    def __init__(self) -> None:
        self.small = small_engine()
        self.big = c06.build_engine()
        self.min, self.max = fl.Minimum(), fl.Maximum()


def verdict(text: str, vocab, out_vocab):
    try:
        RG.parse_rule(text, vocab, out_vocab)
        return "VALID"
    except RG.Reject as r:
        return r.cls


def check_text(acc: Acc, ctx: Ctx, engine, vocab, out_vocab, text: str, family: str, edit: str | None = None) -> None:
    ref = verdict(text, vocab, out_vocab)
    case = {"text": text, "family": family, "edit": edit, "engine": "small" if engine is ctx.small else "c06"}
    acc.transitions += 1
    rule = fl.Rule()
    outcome = "accepted"
    try:
        rule.parse(text)
        rule.load(engine)
    except ALLOWED_REJECTIONS:
        outcome = "rejected"
    except Exception as ex:  # noqa: BLE001
        outcome = "internal"
        import traceback
        tb = traceback.extract_tb(ex.__traceback__)
        where = f"{tb[-1].filename.split('/')[-1]}:{tb[-1].name}"
        acc.violate("internal-error", {"type": type(ex).__name__, "where": where}, case, "clean rejection or acceptance",
                    f"{type(ex).__name__}: {ex}", f"{text!r}: internal {type(ex).__name__} in {where}: {str(ex)[:120]}")
    # the same text loaded into a rule object that is ALREADY loaded: a failed load must not leave the old expression
    if outcome != "internal" and family in ("edits", "antecedent", "consequent", "depth", "termless"):
        valid = "if a is t then o is p" if engine is ctx.big else "if a is t then o is t"
        again = fl.Rule.create(valid, engine)
        parsed = False
        try:
            again.parse(text)
            parsed = True
            again.load(engine)
            # loaded: a fresh rule must have accepted the same text, and both must hold the same expression
            if outcome == "rejected" or (outcome == "accepted" and again.antecedent.postfix() != rule.antecedent.postfix()):
                acc.violate("reload-differs", {"fresh": outcome}, case, "rejected" if outcome == "rejected" else rule.antecedent.postfix(),
                            again.antecedent.postfix() if again.antecedent.is_loaded() else "loaded",
                            f"{text!r}: parsed into an already loaded rule and loaded again it is accepted as "
                            f"{again.antecedent.postfix() if again.antecedent.is_loaded() else '?'!r}; a fresh rule is {outcome}")
        except Exception:  # noqa: BLE001
            if parsed and again.is_loaded():
                acc.violate("loaded-after-failed-load", {"path": "reload"}, case, False, True,
                            f"{text!r}: a previously loaded rule still reports loaded after re-parsing and a failed load")
        acc.transitions += 1
    demand = (edit in LISTED or family == "consequent") and ref != "VALID"
    acc.case(text, nontrivial=(ref != "VALID") or edit is None)
    if outcome != "accepted":
        if rule.is_loaded():
            acc.violate("loaded-after-failed-load", {}, case, False, True, f"{text!r}: rule reports loaded after a failed load")
        if ref == "VALID" and outcome == "rejected":
            acc.violate("valid-rejected", {}, case, "accepted", "rejected", f"valid rule rejected: {text!r}")
        acc.cls(f"{family}_rejected")
        return
    if demand:
        acc.violate("invalid-accepted", {"edit": edit, "class": ref}, case, f"rejected ({ref})", "accepted",
                    f"{text!r} ({edit}; {ref}) was accepted")
        return
    if ref != "VALID" and family != "termless":
        acc.cls("lenient_accepts")
        if acc.extra["lenient_samples"] < 3:
            acc.extra["lenient_samples"] += 1
            acc.sample({"lenient_accept": text, "reference": ref}, 4)
    acc.cls(f"{family}_accepted")
    # accepted => exportable, re-creatable, evaluable
    try:
        again = fl.Rule.create(rule.text, engine)
        if again.antecedent.postfix() != rule.antecedent.postfix() or not again.is_loaded():
            acc.violate("reexport-differs", {}, case, rule.antecedent.postfix(), again.antecedent.postfix(), "re-created rule differs")
        fl.FllExporter().rule(rule)
        for iv in engine.input_variables:
            iv.value = 0.25
        rule.activate_with(ctx.min, ctx.max)
        before = [len(ov.fuzzy.terms) for ov in engine.output_variables]
        rule.trigger(ctx.min)
        for ov, n in zip(engine.output_variables, before):
            del ov.fuzzy.terms[n:]
        acc.traces += 1
    except Exception as ex:  # noqa: BLE001
        acc.violate("accepted-but-unusable", {"type": type(ex).__name__}, case, "usable", f"{type(ex).__name__}: {ex}",
                    f"{text!r} was accepted but cannot be exported/evaluated: {type(ex).__name__}: {str(ex)[:100]}")


# ---------------------------------------------------------------------------------------------------------------------
def edits_of(tokens: list[str], vocab, out_vocab):
    """(edit class, new token list) for every single edit at every position."""
    variables = set(vocab)
    terms = set().union(*vocab.values())
    then = tokens.index("then")
    for i, tok in enumerate(tokens):
        rest = tokens[:i] + tokens[i + 1:]
        if tok in ("if", "then", "is", "with"):
            yield ("delete-keyword" if tok != "with" else "delete-other"), rest
        elif tok in ("and", "or"):
            yield "delete-operator", rest
        elif tok in ("(", ")"):
            yield "delete-paren", rest
        elif tok in variables and i + 1 < len(tokens) and tokens[i + 1] == "is":
            yield "delete-variable", rest
        elif tok in terms:
            yield "delete-term", rest
        elif tok in RG.HEDGES:
            yield "delete-other", rest
        elif RG.is_number(tok):
            yield "missing-weight", rest
        yield "duplicate", tokens[:i] + [tok, tok] + tokens[i + 1:]
        for sub in ("zz", "then", "is", "0.5", "(", ")", "and"):
            if sub == tok:
                continue
            if sub == "zz" and (tok in variables or tok in terms or tok in RG.HEDGES):
                yield "unknown-name", tokens[:i] + [sub] + tokens[i + 1:]
            elif sub == "zz" and RG.is_number(tok):
                yield "non-numeric-weight", tokens[:i] + [sub] + tokens[i + 1:]
            else:
                yield "substitute", tokens[:i] + [sub] + tokens[i + 1:]
        if i + 1 < len(tokens) and tokens[i] != tokens[i + 1]:
            yield "swap", tokens[:i] + [tokens[i + 1], tokens[i]] + tokens[i + 2:]
    for i in range(len(tokens) + 1):
        for par in ("(", ")"):
            yield "insert-paren", tokens[:i] + [par] + tokens[i:]
    for i in range(0, len(tokens)):
        yield "truncate", tokens[:i]
    yield "trailing-token", tokens + ["zz"]
    # delete a whole proposition (an operand) of the antecedent
    i = 1
    while i < then:
        if tokens[i] in variables and i + 1 < then and tokens[i + 1] == "is":
            j = i + 2
            while j < then and tokens[j] not in ("and", "or", "(", ")"):
                j += 1
            if j - i < then - 1:  # not the only operand
                yield "delete-operand", tokens[:i] + tokens[j:]
            i = j
        else:
            i += 1


def base_rules():
    cons = [("o is p", None), ("o is very p and o is q", "0.500")]
    for n in (1, 2, 3):
        for tree in T.trees(n, c06.LEAVES5):
            for style in ("minimal", "full"):
                for c, w in cons:
                    text = f"if {RG.render(tree, style)} then {c}" + (f" with {w}" if w else "")
                    yield text


# ---------------------------------------------------------------------------------------------------------------------
def fll_documents():
    engines = []
    e1 = fl.Engine(
        "mamdani", "a description",
        input_variables=[fl.InputVariable("a", "in a", True, 0.0, 1.0, False, [fl.Triangle("t", 0.0, 0.5, 1.0), fl.Ramp("u", 0.0, 1.0, 0.5)])],
        output_variables=[fl.OutputVariable("o", "", True, 0.0, 1.0, True, True, 0.5, fl.Maximum(), fl.Centroid(100),
                                            [fl.Triangle("t", 0.0, 0.5, 1.0), fl.Discrete("d", [0.0, 0.0, 1.0, 1.0])])],
        rule_blocks=[fl.RuleBlock("rb", "", True, fl.Minimum(), fl.Maximum(), fl.AlgebraicProduct(), fl.First(2, 0.25),
                                  [fl.Rule.create("if a is t then o is t"), fl.Rule.create("if a is very u or a is any then o is d with 0.5")])],
    )
    engines.append(e1)
    e2 = fl.Engine(
        "sugeno", "",
        input_variables=[fl.InputVariable("a", "", True, -1.0, 1.0, False, [fl.Gaussian("t", 0.0, 0.25)])],
        output_variables=[fl.OutputVariable("o", "", True, -5.0, 5.0, False, False, fl.nan, None, fl.WeightedAverage("TakagiSugeno"),
                                            [fl.Constant("k", 1.5), fl.Linear("l", [2.0, 0.5]), fl.Function("f", "2 * ( a + abs ( a ) )"), fl.Function("g", "2 * ( a )")])],
        rule_blocks=[fl.RuleBlock("rb", "", True, None, None, None, fl.Threshold(">=", 0.1),
                                  [fl.Rule.create("if a is t then o is k"), fl.Rule.create("if a is not t then o is l and o is f")])],
    )
    engines.append(e2)
    return [fl.FllExporter().to_string(e) for e in engines]


def fll_mutants(doc: str):
    lines = doc.rstrip("\n").split("\n")
    n = len(lines)
    for i in range(n):
        yield "delete-line", lines[:i] + lines[i + 1:]
        yield "duplicate-line", lines[:i] + [lines[i], lines[i]] + lines[i + 1:]
        for j in range(n):
            if j not in (i, i + 1):
                moved = lines[:i] + lines[i + 1:]
                k = j if j < i else j - 1
                yield "move-line", moved[:k] + [lines[i]] + moved[k:]
    for i, line in enumerate(lines):
        toks = line.split(" ")
        if "Function" in toks:  # a formula with one parenthesis deleted is unbalanced: the document must be rejected
            for k in range(len(toks)):
                if toks[k] in ("(", ")"):
                    yield "unbalance-parenthesis", lines[:i] + [" ".join(toks[:k] + toks[k + 1:])] + lines[i + 1:]
        for k in range(len(toks)):
            if not toks[k]:
                continue
            yield "truncate", lines[:i] + [" ".join(toks[:k])]
            if k >= 2:
                yield "truncate-line", lines[:i] + [" ".join(toks[:k])] + lines[i + 1:]  # the rest of the document stays
            for sub in ("Zz", "zz", "", "7", "true", "-", "nan"):
                if sub != toks[k]:
                    yield "substitute", lines[:i] + [" ".join(toks[:k] + [sub] + toks[k + 1:])] + lines[i + 1:]
        if ":" in line:
            key, rest = line.split(":", 1)
            yield "misspelt-key", lines[:i] + [key + "x:" + rest] + lines[i + 1:]
            yield "misspelt-key", lines[:i] + [key[:-1] + ":" + rest] + lines[i + 1:]
            yield "no-colon", lines[:i] + [key + rest] + lines[i + 1:]


def import_outcome(text: str, separator: str):
    """('accepted', exported text) | ('rejected', exception class) | ('internal', exception) of one import."""
    try:
        importer = fl.FllImporter() if separator == "\n" else fl.FllImporter(separator=separator)
        engine = importer.from_string(text if separator == "\n" else text.replace("\n", separator))
    except ALLOWED_REJECTIONS as ex:
        return "rejected", type(ex).__name__, None
    except RuntimeError:
        return "rejected", "RuntimeError", None
    except Exception as ex:  # noqa: BLE001
        return "internal", type(ex).__name__, ex
    return "accepted", None, engine


def check_fll(acc: Acc, text: str, edit: str) -> None:
    case = {"fll": text, "edit": edit, "family": "fll"}
    acc.transitions += 1
    acc.case(text, nontrivial=True)
    outcome, cls, obj = import_outcome(text, "\n")
    exported = None
    if outcome == "internal":
        import traceback
        tb = traceback.extract_tb(obj.__traceback__)
        where = f"{tb[-1].filename.split('/')[-1]}:{tb[-1].name}"
        acc.violate("internal-error", {"type": cls, "where": where, "family": "fll"}, case, "clean outcome",
                    f"{cls}: {obj}", f"FLL import ({edit}): internal {cls} in {where}: {str(obj)[:100]}")
        return
    if outcome == "rejected":
        acc.cls("fll_rejected" if cls != "RuntimeError" else "fll_rejected_runtime")
    else:
        acc.cls("fll_accepted")
        if edit == "unbalance-parenthesis":
            acc.violate("ill-formed-accepted", {"family": "fll", "edit": edit}, case, "rejected", "accepted",
                        "FLL document whose Function formula has unbalanced parentheses is accepted: " + next((ln.strip() for ln in text.split("\n") if " Function " in ln and ln.count("(") != ln.count(")")), ""))
            return
        try:
            exported = fl.FllExporter().to_string(obj)
            fl.FllImporter().from_string(exported)
            acc.traces += 1
            # ... and evaluated: an imported engine that reports itself ready processes finite inputs
            # (ready or not: a missing operator or a formula naming an unknown variable is a clean ValueError, only later;
            #  anything else - AttributeError, TypeError, RuntimeError ... - is an internal error)
            if obj.rule_blocks:
                for iv in obj.input_variables:
                    iv.value = 0.25
                try:
                    obj.process()
                    acc.cls("fll_processed")
                except ALLOWED_REJECTIONS:
                    acc.cls("fll_late_value_error")
        except Exception as ex:  # noqa: BLE001
            acc.violate("accepted-but-unusable", {"type": type(ex).__name__, "family": "fll"}, case, "exportable",
                        f"{type(ex).__name__}: {ex}", f"imported FLL ({edit}) cannot be exported and re-imported: {type(ex).__name__}: {str(ex)[:100]}")
            return
    # the statement separator is a configuration of the importer, not part of the language: the same document written
    # with ';' between statements has the same fate (accepted with the same content / rejected with the same class)
    if ";" not in text:
        o2, c2, obj2 = import_outcome(text, ";")
        acc.transitions += 1
        exported2 = None
        if o2 == "accepted":
            try:
                exported2 = fl.FllExporter().to_string(obj2)
            except Exception as ex:  # noqa: BLE001
                exported2 = f"{type(ex).__name__}"
        if (o2, c2) != (outcome, cls) or exported2 != exported:
            acc.violate("separator-dependent", {"newline": outcome, "semicolon": o2}, {**case, "separator": ";"}, [outcome, cls, exported],
                        [o2, c2, exported2], f"FLL ({edit}) is {outcome} ({cls}) with newline separators but {o2} ({c2}) with ';' separators"
                        + ("" if exported2 == exported else " / imported content differs"))
        acc.cls("separator_variants")


# ---------------------------------------------------------------------------------------------------------------------
def plan(tier: str, seed: int):
    shards = [("frame", p, 4) for p in range(4)]
    shards += [("antecedent", p, 24) for p in range(24)]
    shards += [("consequent", p, 12) for p in range(12)]
    shards += [("edits", p, 32) for p in range(32)]
    shards += [("fll", p, 8) for p in range(8)]
    shards += [("termless", p, 4) for p in range(4)]
    shards += [("depth", 0, 1), ("block", 0, 1)]
    return shards


def run_shard(tier: str, seed: int, shard):
    family, part, parts = shard
    acc = Acc(ID)
    ctx = Ctx()
    L = 5 if tier == "quick" else 6

    def guarded(engine, vocab, out_vocab, text, edit=None):
        acc.guard({"text": text, "family": family, "edit": edit}, check_text, acc, ctx, engine, vocab, out_vocab, text, family, edit)

    idx = 0
    if family == "frame":
        for n in range(0, 7):
            for syms in itertools.product(FRAME_SYMBOLS, repeat=n):
                idx += 1
                if idx % parts == part:
                    guarded(ctx.small, SMALL_VOCAB, SMALL_OUT, " ".join(syms))
    elif family == "antecedent":
        for n in range(0, L + 1):
            for toks in itertools.product(ANTE_TOKENS, repeat=n):
                idx += 1
                if idx % parts == part:
                    guarded(ctx.small, SMALL_VOCAB, SMALL_OUT, "if " + " ".join(toks) + " then o is t")
    elif family == "termless":
        for n in range(1, L + 1):
            for toks in itertools.product(TERMLESS_TOKENS, repeat=n):
                if "e" not in toks:
                    continue
                idx += 1
                if idx % parts == part:
                    guarded(ctx.small, SMALL_VOCAB, SMALL_OUT, "if " + " ".join(toks) + " then o is t")
    elif family == "consequent":
        for n in range(0, L + 1):
            for toks in itertools.product(CONS_TOKENS, repeat=n):
                idx += 1
                if idx % parts == part:
                    body = "if a is t then " + " ".join(toks)
                    guarded(ctx.small, SMALL_VOCAB, SMALL_OUT, body)
                    if n <= 4:
                        for tail in (" with 0.5", " with abc", " with 0.5 zz", " with"):
                            guarded(ctx.small, SMALL_VOCAB, SMALL_OUT, body + tail)
        if part == 0:
            # every (variable, term) pairing in 2- and 3-conclusion consequents: a term name must belong to ITS variable
            names = ["t", "u", "w", "zz"]
            for v1, t1, v2, t2 in itertools.product(("o", "p"), names, ("o", "p"), names):
                guarded(ctx.small, SMALL_VOCAB, SMALL_OUT, f"if a is t then {v1} is {t1} and {v2} is {t2}")
                for h in ("very", "any"):
                    guarded(ctx.small, SMALL_VOCAB, SMALL_OUT, f"if a is t then {v1} is {h} {t1} and {v2} is {h} {t2} with 0.5")
                guarded(ctx.small, SMALL_VOCAB, SMALL_OUT, f"if a is t then o is t and {v1} is {t1} and {v2} is {t2}")
    elif family == "edits":
        for text in base_rules():
            idx += 1
            if idx % parts != part:
                continue
            if tier == "quick" and idx % 4 != part % 4 and len(text.split()) > 14:
                continue
            guarded(ctx.big, c06.VOCAB, C06_OUT, text, None)
            toks = text.split()
            for edit, new in edits_of(toks, c06.VOCAB, C06_OUT):
                guarded(ctx.big, c06.VOCAB, C06_OUT, " ".join(new), edit)
                acc.cls(f"edit_{edit}")
    elif family == "fll":
        for doc in fll_documents():
            check_fll(acc, doc, "none")
            for edit, lines in fll_mutants(doc):
                idx += 1
                if idx % parts == part:
                    acc.guard({"fll": "\n".join(lines), "edit": edit}, check_fll, acc, "\n".join(lines) + "\n", edit)
    elif family == "depth":
        for depth in (8, 64, 256):
            inner = "a is t"
            guarded(ctx.small, SMALL_VOCAB, SMALL_OUT, "if " + "( " * depth + inner + " )" * depth + " then o is t")
            guarded(ctx.small, SMALL_VOCAB, SMALL_OUT, "if " + "( " * depth + inner + " )" * (depth - 1) + " then o is t", "delete-paren")
            chain = " and ".join(["a is t"] * depth)
            guarded(ctx.small, SMALL_VOCAB, SMALL_OUT, f"if {chain} then o is t")
            guarded(ctx.small, SMALL_VOCAB, SMALL_OUT, f"if {chain} and then o is t", "delete-operand")
            cchain = " and ".join(["o is t"] * depth)
            guarded(ctx.small, SMALL_VOCAB, SMALL_OUT, f"if a is t then {cchain}")
            hedges = " ".join(["very"] * depth)
            guarded(ctx.small, SMALL_VOCAB, SMALL_OUT, f"if a is {hedges} t then o is {hedges} t")
    elif family == "block":
        # RuleBlock.load_rules collects per-rule errors into one RuntimeError; failed rules stay unloaded
        bad_texts = ["if a is then o is t", "if a is very then o is t", "if a is t then o is", "if zz is t then o is t",
                     "if a is t and then o is t", "if ( a is t then o is t"]
        for bad in bad_texts:
            good = fl.Rule.create("if a is t then o is t")
            wrong = fl.Rule.create(bad)
            block = fl.RuleBlock("rb", rules=[good, wrong])
            case = {"text": bad, "family": "block", "edit": None}
            acc.case(bad, nontrivial=True)
            acc.transitions += 1
            try:
                block.load_rules(ctx.small)
                acc.violate("invalid-accepted", {"edit": "block", "class": "block"}, case, "RuntimeError", "accepted", f"block accepted {bad!r}")
            except RuntimeError:
                acc.cls("block_rejected")
            except Exception as ex:  # noqa: BLE001
                acc.violate("internal-error", {"type": type(ex).__name__, "where": "load_rules"}, case, "RuntimeError",
                            repr(ex), f"load_rules raised {type(ex).__name__}")
            if wrong.is_loaded() or not good.is_loaded():
                acc.violate("loaded-after-failed-load", {}, case, [True, False], [good.is_loaded(), wrong.is_loaded()], "block load state")
            try:
                fl.Engine("x", input_variables=ctx.small.input_variables, output_variables=ctx.small.output_variables,
                          rule_blocks=[fl.RuleBlock("rb", rules=[fl.Rule.create(bad)])])
                acc.violate("invalid-accepted", {"edit": "engine", "class": "engine"}, case, "RuntimeError", "accepted", "Engine() accepted bad rule")
            except RuntimeError:
                acc.cls("block_rejected")
            except Exception as ex:  # noqa: BLE001
                acc.violate("internal-error", {"type": type(ex).__name__, "where": "Engine"}, case, "RuntimeError", repr(ex), "Engine() internal")
    acc.states = acc.evals
    return acc.result()


def summarize(tier: str, seed: int, merged: dict) -> dict:
    c = merged["classes"]
    need = ["antecedent_accepted", "antecedent_rejected", "consequent_accepted", "edits_accepted", "edits_rejected",
            "fll_accepted", "fll_rejected", "block_rejected", "edit_delete-operand", "edit_insert-paren"]
    vac = [f"outcome class {k} is empty" for k in need if not c.get(k)]
    L = 5 if tier == "quick" else 6
    return {
        "rule": (
            f"frame: all strings of <= 6 symbols over {FRAME_SYMBOLS}; antecedent: all token strings of length <= {L} over "
            f"{ANTE_TOKENS}; consequent: length <= {L} over {CONS_TOKENS} (x 5 weight tails up to length 4); edits: every "
            "single edit at every position of the valid rules printed from all trees with <= 3 leaves (2 renderings x 2 "
            "consequents; quick keeps every 4th of the long ones); fll: 2 documents x every line deletion/duplication/move, "
            "truncation of the document and of each line at every token, 7 substitutions per token, misspelt keys, each imported with newline and with ';' statement separators; depth 8/64/256; "
            f"termless: all token strings of length <= {L} over {TERMLESS_TOKENS} mentioning the term-less variable e. states = texts, "
            "transitions = load attempts, traces = accepted texts re-exported/re-created/evaluated; non-trivial = text that "
            "is not a sentence of the reference grammar"
        ),
        "exhaustive": True,
        "vacuity_errors": vac,
        "assumptions": [
            "rejection is demanded only for single edits of the classes the statement lists applied to valid rules and "
            "judged invalid by the reference recogniser; other ungrammatical texts may be accepted leniently (counted)",
            "recursion: nesting/chain depth explored up to 256",
        ],
    }


def replay(case: dict):
    acc = Acc(ID)
    ctx = Ctx()
    if "fll" in case:
        acc.guard(case, check_fll, acc, case["fll"], case.get("edit", ""))
        return acc.violations
    if case.get("family") == "block":
        r = run_shard("quick", 0, ("block", 0, 1))
        return [v for v in r["violations"] if v["case"]["text"] == case["text"]]
    if case.get("engine") == "c06" or case.get("family") == "edits":
        engine, vocab, out = ctx.big, c06.VOCAB, C06_OUT
    else:
        engine, vocab, out = ctx.small, SMALL_VOCAB, SMALL_OUT
    acc.guard(case, check_text, acc, ctx, engine, vocab, out, case["text"], case.get("family", "replay"), case.get("edit"))
    return acc.violations

"""C09 - integral defuzzifiers return the defined point of the sampled fuzzy set.

K1: 5 defuzzifiers x resolutions x 4 ranges x all aggregated sets of 0..2 (thorough: a bounded family of 3)
activated terms over a 10-term alphabet placed relative to the range x 4 degrees x 2 implications x 4 aggregations;
batch degrees against the scalar runs; centroid translation.
Oracle: (1) Op.midpoints against min+(i+1/2)(max-min)/r; (2) the aggregated membership at the sample points against
the reference terms/norms; (3) vmc.ref.defuzz decision procedures applied to the implementation's own sampled set
(x_i, y_i) (policy 3.2-3: tie-sensitive decisions are taken on the same data); (4) relations of the statement.
"""

from __future__ import annotations

import itertools
import math

import numpy as np

from ..explore import Acc
from ..gen.termspace import make_term
from ..lib import fl
from ..oracle import close, same
from ..ref import defuzz as RD
from ..ref import norms as RN
from ..ref import terms as RT

ID = "C09"
LEVEL = "exploration"
RANGES = [(0.0, 1.0), (-1.0, 1.0), (2.0, 6.0), (-3.5, -1.25)]
DEGREES = [0.0, 0.25, 0.5, 1.0]
IMPLS = ["Minimum", "AlgebraicProduct"]
AGGRS = ["Maximum", "BoundedSum", "AlgebraicSum", "UnboundedSum"]
DEFUZZ = ["Bisector", "Centroid", "SmallestOfMaximum", "MeanOfMaximum", "LargestOfMaximum"]
NAN = float("nan")


def term_alphabet(a: float, b: float):
    w = b - a
    m = a + w / 2
    return [
        ("Triangle", [a, m, b]),
        ("Triangle", [a + w / 4, m, a + 3 * w / 4]),
        ("Trapezoid", [a, a + w / 4, a + 3 * w / 4, b]),
        ("Rectangle", [a + w / 8, a + 3 * w / 8]),
        ("Rectangle", [a + 5 * w / 8, a + 7 * w / 8]),
        ("Rectangle", [a, b]),
        ("Ramp", [a, b]),
        ("Ramp", [b, a]),
        ("Sigmoid", [m, 8.0 / w]),
        ("Gaussian", [m, w / 8]),
    ]


def resolutions(tier: str, k: int):
    if tier == "quick":
        return [1, 2, 3, 4, 5, 8, 16] + ([100, 1000] if k <= 1 else [])
    if k <= 1:
        return list(range(1, 65)) + [100, 128, 999, 1000]
    if k == 2:
        return list(range(1, 34)) + [64]
    return [4, 5, 16]


def sets_of(k: int, tier: str):
    atoms = [(t, d) for t in range(10) for d in DEGREES]
    if k <= 2:
        return list(itertools.product(atoms, repeat=k))
    atoms3 = [(t, d) for t in (0, 3, 4, 6, 8, 9) for d in (0.25, 0.5, 1.0)]
    if tier == "quick":
        atoms3 = [(t, d) for t in (1, 3, 4, 7) for d in (0.5, 1.0)]
    return list(itertools.product(atoms3, repeat=3))


def plan(tier: str, seed: int):
    return [(r, i, g) for r in range(len(RANGES)) for i in IMPLS for g in AGGRS]


LAMBDA_IMPLICATION = "lambda: degree^2 * membership"  # a user-defined, NON-commutative implication (NormLambda)


def ref_membership(alpha, aset, impl: str, aggr: str, x: float) -> float:
    y = 0.0
    for t, d in aset:
        cls, p = alpha[t]
        mu = RT.membership(cls, p, 1.0, x)
        y = RN.compute(aggr, y, d * d * mu if impl == LAMBDA_IMPLICATION else RN.compute(impl, d, mu))
    return y


class Ctx:
    def __init__(self, rng_idx: int, impl: str, aggr: str, shift: float = 0.0) -> None:
        a, b = RANGES[rng_idx]
        self.a, self.b = a + shift, b + shift
        self.alpha = term_alphabet(self.a, self.b)
        self.terms = [make_term(cls, f"t{k}", p, 1.0) for k, (cls, p) in enumerate(self.alpha)]
        self.impl_name, self.aggr_name = impl, aggr
        self.impl = fl.NormLambda(lambda a, b: a * a * b) if impl == LAMBDA_IMPLICATION else getattr(fl, impl)()
        self.aggr = getattr(fl, aggr)()
        self.defuzz = {}

    def aggregated(self, aset, degrees=None):
        acts = []
        for k, (t, d) in enumerate(aset):
            acts.append(fl.Activated(self.terms[t], d if degrees is None else degrees[k], self.impl))
        return fl.Aggregated("o", self.a, self.b, self.aggr, acts)

    def defuzzifier(self, name: str, r: int):
        key = (name, r)
        if key not in self.defuzz:
            self.defuzz[key] = getattr(fl, name)(r)
        return self.defuzz[key]


def check_midpoints(acc: Acc, a: float, b: float, r: int):
    x = fl.Op.midpoints(a, b, r)
    want = RD.midpoints(a, b, r)
    case = {"range": [a, b], "resolution": r}
    if np.shape(x) != (r,):
        acc.violate("midpoints-shape", {}, case, r, list(np.shape(x)), "Op.midpoints returned the wrong number of points")
        return None
    xs = [float(v) for v in x]
    for i, (g, w) in enumerate(zip(xs, want)):
        if g != g or abs(g - w) > 4 * math.ulp(max(abs(a), abs(b), 1.0)):
            acc.violate("midpoints", {}, {**case, "index": i}, w, g, f"Op.midpoints({a},{b},{r})[{i}] = {g!r}, expected {w!r}")
            break
    return xs


def check_set(acc: Acc, ctx: Ctx, aset, r: int, xs, results_out=None) -> None:
    a, b = ctx.a, ctx.b
    case = {"range": [a, b], "set": [list(s) for s in aset], "implication": ctx.impl_name, "aggregation": ctx.aggr_name,
            "resolution": r}
    agg = ctx.aggregated(aset)
    y_arr = agg.membership(np.array(xs))
    ys = [float(v) for v in np.atleast_1d(y_arr)] if aset else [0.0] * r
    if len(ys) != r:
        acc.violate("membership-shape", {}, case, r, len(ys), "aggregated membership has the wrong length")
        return
    # (2) sample memberships against the reference (all points for small r, a stride otherwise)
    stride = max(1, r // 16)
    for i in range(0, r, stride):
        want = ref_membership(ctx.alpha, aset, ctx.impl_name, ctx.aggr_name, xs[i])
        if not close(ys[i], want, 1e-12, 1e-9):
            acc.violate("sample-membership", {"aggregation": ctx.aggr_name, "implication": ctx.impl_name},
                        {**case, "x": xs[i]}, want, ys[i], f"aggregated membership at {xs[i]} = {ys[i]!r}, reference {want!r}")
            return
    allzero = all(v == 0.0 for v in ys)
    got = {}
    for name in DEFUZZ:
        z = ctx.defuzzifier(name, r).defuzzify(agg, a, b)
        z_again = ctx.defuzzifier(name, r).defuzzify(agg, a, b) if r in (3, 5) else z  # repeatability (two resolutions)
        if not np.array_equal(np.asarray(z, dtype=float), np.asarray(z_again, dtype=float), equal_nan=True):
            acc.violate("not-repeatable", {"defuzzifier": name}, {**case, "defuzzifier": name}, fl.Op.str(z), fl.Op.str(z_again),
                        f"{name}: defuzzifying the same set twice gives {z} then {z_again}")
        acc.case((a, b, aset, ctx.impl_name, ctx.aggr_name, r, name), nontrivial=not allzero)
        if np.shape(z) != ():
            acc.violate("result-shape", {"defuzzifier": name}, {**case, "defuzzifier": name}, "()", list(np.shape(z)), "scalar set, non-scalar result")
            continue
        z = float(z)
        got[name] = z
        want = RD.DEFUZZIFIERS[name](xs, ys)
        dcase = {**case, "defuzzifier": name}
        if (z != z) != allzero:
            acc.violate("nan-iff-empty", {"defuzzifier": name}, dcase, "NaN exactly when all samples are 0", z,
                        f"{name}: result {z!r} but all-zero={allzero}")
            continue
        exact = name in ("SmallestOfMaximum", "LargestOfMaximum")
        ok = same(z, want) if exact else close(z, want, 1e-12, 1e-9)
        if not ok and name == "Bisector":
            _, margin = RD.bisector_ties(ys)
            if margin < 1e-9:
                acc.cls("tie_margin_skipped")
                ok = True
        if not ok:
            acc.violate("value", {"defuzzifier": name}, dcase, want, z,
                        f"{name}(r={r}) on {case['set']} over [{a},{b}] = {z!r}, definition gives {want!r}")
        if z == z and not (a <= z <= b):
            acc.violate("range", {"defuzzifier": name}, dcase, [a, b], z, f"{name} result {z!r} outside [{a},{b}]")
    if not allzero:
        s, m, l = got.get("SmallestOfMaximum"), got.get("MeanOfMaximum"), got.get("LargestOfMaximum")
        if None not in (s, m, l) and not (s <= m + 1e-12 and m <= l + 1e-12):
            acc.violate("som-mom-lom", {}, case, "SOM <= MOM <= LOM", [s, m, l], f"SOM={s} MOM={m} LOM={l}")
        if len(RD.maxima(ys)) > 1:
            acc.cls("multi_point_maximum")
        if len(RD.bisector_ties(ys)[0]) > 1:
            acc.cls("bisector_tie")
    else:
        acc.cls("all_zero_set")
    if results_out is not None:
        results_out[aset] = got


def check_translation(acc: Acc, ctx: Ctx, ctx2: Ctx, aset, r: int, shift: float) -> None:
    z1 = float(ctx.defuzzifier("Centroid", r).defuzzify(ctx.aggregated(aset), ctx.a, ctx.b))
    z2 = float(ctx2.defuzzifier("Centroid", r).defuzzify(ctx2.aggregated(aset), ctx2.a, ctx2.b))
    acc.case(("translate", ctx.a, aset, ctx.impl_name, ctx.aggr_name, r), nontrivial=z1 == z1)
    acc.cls("translations")
    if not close(z1 + shift, z2, 1e-9, 1e-9):
        acc.violate("translation", {}, {"range": [ctx.a, ctx.b], "set": [list(s) for s in aset], "implication": ctx.impl_name,
                                        "aggregation": ctx.aggr_name, "resolution": r, "shift": shift},
                    z1 + shift, z2, f"centroid {z1!r} does not move by {shift} under translation: {z2!r}")


def check_batch(acc: Acc, ctx: Ctx, pair, r: int) -> None:
    rows = [[0.25, 1.0], [0.5, 0.0], [1.0, 0.5], [0.0, 0.0]]
    aset = ((pair[0], 0.0), (pair[1], 0.0))
    d1 = np.array([rw[0] for rw in rows])
    d2 = np.array([rw[1] for rw in rows])
    agg = ctx.aggregated(aset, degrees=[d1, d2])
    keep1, keep2 = d1.copy(), d2.copy()
    for name in DEFUZZ:
        z = ctx.defuzzifier(name, r).defuzzify(agg, ctx.a, ctx.b)
        case = {"range": [ctx.a, ctx.b], "set": [[pair[0], "batch"], [pair[1], "batch"]], "implication": ctx.impl_name,
                "aggregation": ctx.aggr_name, "resolution": r, "defuzzifier": name, "batch": rows}
        acc.case(("batch", ctx.a, pair, ctx.impl_name, ctx.aggr_name, r, name), nontrivial=True)
        acc.cls("batch_rows", len(rows))
        if np.shape(z) != (len(rows),):
            acc.violate("batch-shape", {"defuzzifier": name}, case, len(rows), list(np.shape(z)), "batch result has wrong shape")
            continue
        for k, rw in enumerate(rows):
            single = float(ctx.defuzzifier(name, r).defuzzify(
                ctx.aggregated(((pair[0], rw[0]), (pair[1], rw[1]))), ctx.a, ctx.b))
            if not close(float(z[k]), single, 1e-12, 1e-12):
                acc.violate("batch-vs-scalar", {"defuzzifier": name}, {**case, "row": k}, single, float(z[k]),
                            f"{name}: row {k} of the batch gives {float(z[k])!r}, the set alone gives {single!r}")
        if not (np.array_equal(d1, keep1) and np.array_equal(d2, keep2)):
            acc.violate("input-array-modified", {"defuzzifier": name}, case, "degrees unchanged", "overwritten", f"{name} modifies the activation degrees")
            return


def check_aliasing(acc: Acc, ctx: Ctx, r: int) -> None:
    """The defuzzified point of a fuzzy set must not depend on what the caller later does with the objects it passed in
    (the list or generator of activations, the array of degrees, the array of sample points)."""
    a, b = ctx.a, ctx.b
    case = {"range": [a, b], "set": "aliasing", "implication": ctx.impl_name, "aggregation": ctx.aggr_name, "resolution": r, "aliasing": True}

    def points(agg):
        return [float(np.asarray(ctx.defuzzifier(n, r).defuzzify(agg, a, b), dtype=float)) for n in DEFUZZ]

    def same_points(p, q):
        return all(close(x, y, 1e-12, 1e-12) for x, y in zip(p, q))

    acts = [fl.Activated(ctx.terms[0], 0.5, ctx.impl), fl.Activated(ctx.terms[4], 1.0, ctx.impl)]
    # (1) the caller's list grows afterwards
    mine = [acts[0]]
    agg = fl.Aggregated("o", a, b, ctx.aggr, mine)
    first = points(agg)
    mine.append(acts[1])
    acc.case(("alias", a, ctx.impl_name, ctx.aggr_name, r, 1), nontrivial=True)
    if not same_points(points(agg), first):
        acc.violate("caller-list-aliased", {}, case, first, points(agg), "appending to the caller's list changed an existing Aggregated set")
    # (2) the activations arrive as a generator
    agg = fl.Aggregated("o", a, b, ctx.aggr, (t for t in acts))
    first = points(agg)
    acc.case(("alias", a, ctx.impl_name, ctx.aggr_name, r, 2), nontrivial=True)
    if not same_points(points(agg), first) or len(agg.terms) != 2:
        acc.violate("generator-consumed", {}, case, first, points(agg), "a set built from a generator defuzzifies differently the second time")
    # (3) the caller overwrites its array of degrees
    d = np.array([0.25, 0.5, 1.0])
    agg = fl.Aggregated("o", a, b, ctx.aggr, [fl.Activated(ctx.terms[0], d, ctx.impl)])
    first = [np.asarray(ctx.defuzzifier(n, r).defuzzify(agg, a, b), dtype=float).tolist() for n in DEFUZZ]
    d[:] = 0.0
    again = [np.asarray(ctx.defuzzifier(n, r).defuzzify(agg, a, b), dtype=float).tolist() for n in DEFUZZ]
    acc.case(("alias", a, ctx.impl_name, ctx.aggr_name, r, 3), nontrivial=True)
    if not all(np.allclose(x, y, rtol=0, atol=1e-12, equal_nan=True) for x, y in zip(first, again)):
        acc.violate("caller-degrees-aliased", {}, case, first, again, "overwriting the caller's degree array changed the activated term")
    # (4) the caller modifies the sample points it obtained from Op.midpoints
    agg = fl.Aggregated("o", a, b, ctx.aggr, acts)
    first = points(agg)
    grid = fl.Op.midpoints(a, b, r)
    grid -= 7.0
    acc.case(("alias", a, ctx.impl_name, ctx.aggr_name, r, 4), nontrivial=True)
    if not same_points(points(agg), first):
        acc.violate("midpoints-shared", {}, case, first, points(agg), "modifying an array returned by Op.midpoints changed later defuzzifications")
    # (5) the very same Activated object listed twice counts twice (as two equal objects do)
    twice = fl.Aggregated("o", a, b, ctx.aggr, [acts[0], acts[1], acts[0]])
    equal = fl.Aggregated("o", a, b, ctx.aggr, [acts[0], acts[1], fl.Activated(ctx.terms[0], 0.5, ctx.impl)])
    acc.case(("alias", a, ctx.impl_name, ctx.aggr_name, r, 5), nontrivial=True)
    if not same_points(points(twice), points(equal)):
        acc.violate("repeated-object-dropped", {}, case, points(equal), points(twice),
                    "a set listing the same Activated object twice defuzzifies differently from the set with two equal objects")
    acc.cls("aliasing_scenarios", 5)


def run_shard(tier: str, seed: int, shard):
    rng_idx, impl, aggr = shard
    acc = Acc(ID)
    ctx = Ctx(rng_idx, impl, aggr)
    ctx2 = Ctx(rng_idx, impl, aggr, shift=1.0)
    mids: dict[int, list[float]] = {}
    for k in (0, 1, 2, 3):
        for r in resolutions(tier, k):
            if r not in mids:
                xs = None
                acc.guard({"range": [ctx.a, ctx.b], "resolution": r}, lambda: mids.__setitem__(r, check_midpoints(acc, ctx.a, ctx.b, r)))
                xs = mids.get(r)
            xs = mids.get(r)
            if xs is None:
                continue
            for aset in sets_of(k, tier):
                case = {"range": [ctx.a, ctx.b], "set": [list(s) for s in aset], "implication": impl, "aggregation": aggr,
                        "resolution": r}
                acc.guard(case, check_set, acc, ctx, aset, r, xs)
                if k in (1, 2) and r in (4, 16):
                    acc.guard(case, check_translation, acc, ctx, ctx2, aset, r, 1.0)
    # special ranges and a user-defined implication (first range's shards only; sets of 0..1 terms x a few resolutions)
    if rng_idx == 0:
        specials = []
        for a, b in ((0.0, 1e306), (-8e307, 8e307), (-1e306, 1e306)):  # finite ranges whose width times the resolution overflows:
            for r in (1, 10, 1000):                                         # the sample points are still the finite midpoints
                check_midpoints(acc, a, b, r)
                acc.cls("special_ranges")
        z = Ctx(0, impl, aggr)  # a range of zero width: every sample point is that point
        z.a, z.b = 2.0, 2.0
        z.alpha = [("Rectangle", [1.0, 3.0]), ("Triangle", [1.0, 2.0, 3.0]), ("Trapezoid", [1.0, 1.5, 2.5, 3.0]), ("Ramp", [1.0, 3.0]), ("Ramp", [3.0, 1.0]),
                   ("Sigmoid", [2.0, 8.0]), ("Gaussian", [2.0, 0.5]), ("Rectangle", [5.0, 6.0]), ("Triangle", [1.5, 2.0, 2.5]), ("Gaussian", [1.0, 0.5])]
        z.terms = [make_term(cls, f"t{k}", p, 1.0) for k, (cls, p) in enumerate(z.alpha)]
        specials.append((z, (1, 2, 4, 16)))
        if impl == "Minimum":
            specials.append((Ctx(0, LAMBDA_IMPLICATION, aggr), (4, 16)))
        for c, rs in specials:
            for r in rs:
                sx = check_midpoints(acc, c.a, c.b, r)
                if sx is None:
                    continue
                for k in (0, 1) + ((2,) if c.impl_name == LAMBDA_IMPLICATION else ()):
                    for aset in sets_of(k, tier):
                        case = {"range": [c.a, c.b], "set": [list(x) for x in aset], "implication": c.impl_name, "aggregation": aggr, "resolution": r, "special": True}
                        acc.guard(case, check_set, acc, c, aset, r, sx)
                        acc.cls("special_ranges")
    # memberships that are positive but within the library comparison tolerance (1e-3) of zero
    tiny_atoms = [(t, d) for t in range(10) for d in (2.0**-12, 2.0**-11)]
    for k in (1, 2):
        for aset in itertools.product(tiny_atoms, repeat=k):
            for r in (4, 16):
                case = {"range": [ctx.a, ctx.b], "set": [list(s) for s in aset], "implication": impl, "aggregation": aggr, "resolution": r}
                acc.guard(case, check_set, acc, ctx, aset, r, mids[r])
                acc.cls("tiny_memberships")
    for pair in itertools.product(range(10), repeat=2):
        for r in (1, 2, 3, 4, 5, 16):  # 4 = the number of rows of the batch (a square membership matrix)
            acc.guard({"range": [ctx.a, ctx.b], "set": list(pair), "resolution": r, "batch": True, "implication": impl,
                       "aggregation": aggr}, check_batch, acc, ctx, pair, r)
    for r in (4, 16):
        acc.guard({"range": [ctx.a, ctx.b], "set": "aliasing", "resolution": r, "aliasing": True, "implication": impl, "aggregation": aggr},
                  check_aliasing, acc, ctx, r)
    if shard == (1, "Minimum", "Maximum"):
        aset = ((0, 0.5), (4, 1.0))
        acc.sample({"range": [ctx.a, ctx.b], "set": [list(ctx.alpha[t]) + [d] for t, d in aset], "implication": impl,
                    "aggregation": aggr, "resolution": 8,
                    "centroid": float(fl.Centroid(8).defuzzify(ctx.aggregated(aset), ctx.a, ctx.b))}, 1)
    return acc.result()


def summarize(tier: str, seed: int, merged: dict) -> dict:
    vac = []
    c = merged["classes"]
    if c.get("multi_point_maximum", 0) + c.get("bisector_tie", 0) < 1000:
        vac.append("fewer than 1000 cases with an exact multi-point tie")
    if not c.get("all_zero_set"):
        vac.append("no all-zero set explored")
    if not c.get("batch_rows") or not c.get("translations"):
        vac.append("batch or translation clause not exercised")
    return {
        "rule": (
            f"ranges {RANGES} x implication {IMPLS} x aggregation {AGGRS} x all ordered sets of 0..2 activated terms over a "
            f"10-term alphabet x degrees {DEGREES} (3-term sets over a reduced alphabet) x resolutions "
            f"k<=1:{len(resolutions(tier, 1))} k=2:{len(resolutions(tier, 2))} k=3:{len(resolutions(tier, 3))} x 5 defuzzifiers; "
            "plus sets of 1..2 terms with degrees 2^-12 / 2^-11 (memberships inside the comparison tolerance of zero), batch-vs-scalar (100 term "
            "pairs x 4 rows at resolutions 1, 2, 3, 4 (square), 5, 16), aliasing scenarios and centroid translation by 1; non-trivial = the sampled set "
            "is not all zero"
        ),
        "exhaustive": True,
        "vacuity_errors": vac,
        "assumptions": [
            "the defuzzifier decisions are judged on the implementation's own sample vector (x_i, y_i); x_i and y_i are "
            "themselves compared with the reference (midpoints within 4 ulp, memberships within 1e-9)",
        ],
    }


def replay(case: dict):
    acc = Acc(ID)
    a, b = case["range"]
    shift = 0.0
    rng_idx = next((i for i, (x, y) in enumerate(RANGES) if x == a and y == b), None)
    if "set" not in case:  # a midpoints-only case (also the ranges of huge magnitude)
        check_midpoints(acc, float(a), float(b), case["resolution"])
        return acc.violations
    if case.get("special") and (a, b) == (2.0, 2.0):
        z = Ctx(0, case.get("implication", "Minimum"), case.get("aggregation", "Maximum"))
        z.a, z.b = 2.0, 2.0
        z.alpha = [("Rectangle", [1.0, 3.0]), ("Triangle", [1.0, 2.0, 3.0]), ("Trapezoid", [1.0, 1.5, 2.5, 3.0]), ("Ramp", [1.0, 3.0]), ("Ramp", [3.0, 1.0]),
                   ("Sigmoid", [2.0, 8.0]), ("Gaussian", [2.0, 0.5]), ("Rectangle", [5.0, 6.0]), ("Triangle", [1.5, 2.0, 2.5]), ("Gaussian", [1.0, 0.5])]
        z.terms = [make_term(cls, f"t{k}", p, 1.0) for k, (cls, p) in enumerate(z.alpha)]
        xs = check_midpoints(acc, 2.0, 2.0, case["resolution"])
        acc.guard(case, check_set, acc, z, tuple((int(t), float(d)) for t, d in case["set"]), case["resolution"], xs)
        return acc.violations
    if rng_idx is None:
        rng_idx = next(i for i, (x, y) in enumerate(RANGES) if x + 1.0 == a)
        shift = 1.0
    r = case["resolution"]
    impl, aggr = case.get("implication", "Minimum"), case.get("aggregation", "Maximum")
    ctx = Ctx(rng_idx, impl, aggr, shift)
    xs = check_midpoints(acc, ctx.a, ctx.b, r)
    if case.get("aliasing"):
        acc.guard(case, check_aliasing, acc, ctx, r)
        return acc.violations
    if "batch" in case:
        pair = [s[0] if isinstance(s, list) else s for s in case["set"]]
        acc.guard(case, check_batch, acc, ctx, tuple(pair), r)
    elif "shift" in case:
        aset = tuple((int(t), float(d)) for t, d in case["set"])
        acc.guard(case, check_translation, acc, ctx, Ctx(rng_idx, impl, aggr, shift + 1.0), aset, r, 1.0)
    elif "set" in case and xs is not None:
        aset = tuple((int(t), float(d)) for t, d in case["set"])
        acc.guard(case, check_set, acc, ctx, aset, r, xs)
    return acc.violations

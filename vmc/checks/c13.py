"""C13 - processing is history-free; restart and copy give clean independent engines.

K2 explicit-state search over operation histories on real engines.  Operations: set inputs (3 rows incl. NaN, one
batch), process, restart, copy-and-switch (continue on the copy, keep the original), edits (term parameter, rule
weight, operator, added term - applied to the engine in use), toggle-and-restore (disable a rule / variable / block,
process, re-enable).  ALL histories up to a depth bound are explored breadth-first; states are merged on a deep
structural digest of all live engines (so merging cannot hide a leak); a state is rebuilt by replaying its history.
Oracle (differential, no hand-written expectations): at every process the outputs equal those of a FRESHLY BUILT
engine (same recipe + same edits) given the current inputs; after restart the digest equals the fresh engine's; after
copy the two object graphs share no mutable object, internal references of the copy point into the copy, and every
later operation on one engine leaves the other's digest unchanged.
"""

from __future__ import annotations

import collections
import enum
import types

import numpy as np

from ..explore import Acc
from ..gen import recipes as R
from ..lib import fl
from ..oracle import close
from ..ref import formula as RF
from ..ref.rulegrammar import prop as P
from . import c01, c02

ID = "C13"
LEVEL = "model_checking"
NAN = float("nan")
ROWS = {"r0": (0.25, 0.625), "r1": (0.625, 0.125), "rn": (NAN, 0.5)}
BATCH = [(0.25, 0.625), (0.875, 0.5)]


def engine_recipes():
    k_terms = [R.shape("Constant", "lo", [0.25]), R.shape("Constant", "hi", [0.75])]
    mamdani = next(r for r, _ in c01.space_a("quick"))
    larsen = R.engine(
        "larsen", [R.in_var("x"), R.in_var("y")],
        [R.out_var("o1", aggregation="AlgebraicSum"), R.out_var("o2", aggregation="Maximum", defuzzifier=("MeanOfMaximum", 16))],
        [R.block("rb1", [R.rule(("and", P("x", (), "lo"), P("y", (), "hi")), [("o1", (), "lo")]),
                         R.rule(P("x", ("very",), "hi"), [("o1", (), "hi")], weight="0.3456")],  # more decimals than the text export keeps
                 "AlgebraicProduct", "AlgebraicSum", "AlgebraicProduct"),
         R.block("rb2", [R.rule(("or", P("o1", (), "hi"), P("y", (), "lo")), [("o2", (), "lo")]),
                         R.rule(P("o1", ("not",), "lo"), [("o2", (), "hi")])], "AlgebraicProduct", "Maximum", "AlgebraicProduct")])
    fn = RF.parse(["2.000", "*", "a", "+", "o1"])  # reads an input and the earlier output o1 (`x` is reserved)
    sugeno = R.engine(
        "sugeno", [R.in_var("a"), R.in_var("b")],
        [R.out_var("o1", -5.0, 5.0, terms=[R.shape("Constant", "lo", [0.25]), {"cls": "Linear", "name": "hi", "params": [1.0, -2.0, 0.5]}],
                   aggregation=None, defuzzifier=("WeightedAverage", "TakagiSugeno")),
         R.out_var("o2", -5.0, 5.0, terms=[R.function_term("lo", fn), R.shape("Constant", "hi", [-1.0])],
                   aggregation="Maximum", defuzzifier=("WeightedSum", "Automatic"))],
        [R.block("rb", [R.rule(P("a", (), "lo"), [("o1", (), "lo"), ("o2", (), "hi")]),
                        R.rule(("and", P("a", (), "hi"), P("b", ("somewhat",), "lo")), [("o1", (), "hi"), ("o2", (), "lo")])],
                 "Minimum", "Maximum", None)])
    tsukamoto = R.engine(
        "tsukamoto", [R.in_var("x"), R.in_var("y")],
        [R.out_var("o1", terms=[R.shape("Ramp", "lo", [1.0, 0.0]), R.shape("SShape", "hi", [0.0, 1.0])],
                   aggregation=None, defuzzifier=("WeightedAverage", "Automatic"))],
        [R.block("rb", [R.rule(P("x", (), "lo"), [("o1", (), "lo")]), R.rule(("or", P("x", (), "hi"), P("y", (), "hi")), [("o1", (), "hi")])],
                 "Minimum", "BoundedSum", None)])
    hybrid = next(r for r, _ in c02.recipes("quick") if r["name"] == "H")
    locked = R.clone(mamdani)
    locked["name"] = "locked"
    locked["outputs"][0].update(lock_previous=True, default=0.5, lock_range=True)
    first = R.clone(mamdani)  # a selecting activation method: per-rule state must not survive from step to step
    first["name"] = "first"
    first["blocks"][0]["activation"] = ["First", 1, 0.0]
    first["blocks"][0]["rules"] = first["blocks"][0]["rules"][::-1]
    last = R.clone(mamdani)  # Last walks the rules backwards: the block's own rule order must not change
    last["name"] = "last"
    last["blocks"][0]["activation"] = ["Last", 1, 0.0]
    # ONE Highest(3) object shared by both blocks, one operator object per kind; an input term whose membership IS the input
    # value (Function `x`), alone in the antecedent of a weighted rule
    shared = R.engine(
        "shared", [R.in_var("a"), R.in_var("b")],
        [R.out_var("o1", aggregation="AlgebraicSum"), R.out_var("o2", aggregation="Maximum", defuzzifier=("MeanOfMaximum", 16))],
        [R.block("rb1", [R.rule(("and", P("a", (), "lo"), P("b", (), "hi")), [("o1", (), "lo")]),
                         R.rule(P("a", ("very",), "hi"), [("o1", (), "hi")], weight="0.3456"),
                         R.rule(P("a", (), "asis"), [("o1", (), "lo")], weight="0.500")],
                 "AlgebraicProduct", "AlgebraicSum", "AlgebraicProduct", activation=("Highest", 3)),
         R.block("rb2", [R.rule(("or", P("o1", (), "hi"), P("b", (), "lo")), [("o2", (), "lo")]),
                         R.rule(P("o1", ("not",), "lo"), [("o2", (), "hi")])], "AlgebraicProduct", "Maximum", "AlgebraicProduct", activation=("Highest", 3))])
    shared["inputs"][0]["terms"].append(R.function_term("asis", RF.parse(["x"])))
    shared["shared_objects"] = True
    return [mamdani, larsen, sugeno, tsukamoto, hybrid, locked, first, last, shared]


# ----------------------------------------------------------------------------------------------------------------------
def fval(x):
    a = np.atleast_1d(np.asarray(x, dtype=float)).ravel()
    return tuple("nan" if v != v else float(v) for v in a)


def snap_obj(o):
    """Structural digest of a component: class name + public state, no identities."""
    if o is None:
        return None
    d = {}
    for k, v in vars(o).items():
        if k == "engine":
            continue
        if isinstance(v, (int, float, str, bool)) or v is None:
            d[k] = "nan" if isinstance(v, float) and v != v else v
        elif isinstance(v, np.ndarray):
            d[k] = fval(v)
        elif isinstance(v, enum.Enum):
            d[k] = v.name
        elif isinstance(v, list) and all(isinstance(e, (int, float)) for e in v):
            d[k] = fval(v)
        elif isinstance(v, dict):
            d[k] = tuple(sorted((kk, fval(vv)) for kk, vv in v.items()))
        elif k == "root":
            d[k] = v.postfix() if v is not None else None
    return (type(o).__name__, tuple(sorted(d.items())))


def snap(engine):
    ins = tuple((v.name, v.enabled, v.minimum, v.maximum, v.lock_range, fval(v.value), tuple(snap_obj(t) for t in v.terms))
                for v in engine.input_variables)
    outs = tuple(
        (v.name, v.enabled, v.minimum, v.maximum, v.lock_range, v.lock_previous, fval(v.default_value), fval(v.value),
         fval(v.previous_value), snap_obj(v.aggregation), snap_obj(v.defuzzifier), tuple(snap_obj(t) for t in v.terms),
         tuple((a.term.name, fval(a.degree), type(a.implication).__name__) for a in v.fuzzy.terms))
        for v in engine.output_variables)
    blocks = tuple(
        (b.name, b.enabled, snap_obj(b.conjunction), snap_obj(b.disjunction), snap_obj(b.implication), snap_obj(b.activation),
         tuple((r.text, r.enabled, r.weight, fval(r.activation_degree), fval(r.triggered), r.is_loaded(),
                r.antecedent.postfix() if r.antecedent.is_loaded() else None,
                tuple(str(c) for c in r.consequent.conclusions)) for r in b.rules))
        for b in engine.rule_blocks)
    return (engine.name, ins, outs, blocks)


ATOMIC = (int, float, str, bool, bytes, type(None), enum.Enum, types.FunctionType, types.BuiltinFunctionType, type,
          types.ModuleType, np.ufunc, np.floating, np.integer, np.bool_)


def mutable_ids(root) -> dict:
    """id -> description of every mutable object reachable from root."""
    seen: dict[int, str] = {}
    stack = [(root, "engine")]
    while stack:
        o, path = stack.pop()
        if isinstance(o, ATOMIC) or callable(o) and not hasattr(o, "__dict__"):
            continue
        if id(o) in seen:
            continue
        if isinstance(o, (list, tuple)):
            if isinstance(o, list):
                seen[id(o)] = path
            for k, e in enumerate(o):
                stack.append((e, f"{path}[{k}]"))
        elif isinstance(o, dict):
            seen[id(o)] = path
            for k, e in o.items():
                stack.append((e, f"{path}[{k!r}]"))
        elif isinstance(o, np.ndarray):
            seen[id(o)] = path
        elif hasattr(o, "__dict__"):
            if isinstance(o, types.MethodType):
                continue
            seen[id(o)] = path
            for k, e in vars(o).items():
                stack.append((e, f"{path}.{k}"))
    return seen


def check_copy(acc: Acc, case, original, copy) -> bool:
    ok = True
    a, b = mutable_ids(original), mutable_ids(copy)
    shared = [a[i] for i in a if i in b]
    if shared:
        acc.violate("copy-shares-state", {"what": shared[0].split("[")[0].split(".")[-1]}, case, "no shared mutable object",
                    shared[:5], f"copy() shares mutable objects with the original: {shared[:3]}")
        ok = False
    variables = {id(v) for v in copy.variables}
    for v in copy.variables:
        for t in v.terms:
            if isinstance(t, (fl.Linear, fl.Function)) and t.engine is not copy:
                acc.violate("copy-reference", {"what": type(t).__name__}, case, "term.engine is the copy", "other engine",
                            f"{type(t).__name__} term {t.name} of the copy references another engine")
                ok = False
    for rb in copy.rule_blocks:
        for r in rb.rules:
            props = list(r.consequent.conclusions)
            stack = [r.antecedent.expression] if r.antecedent.expression is not None else []
            while stack:
                n = stack.pop()
                if isinstance(n, fl.Proposition):
                    props.append(n)
                elif n is not None:
                    stack += [n.left, n.right]
            for p in props:
                if id(p.variable) not in variables or (p.term is not None and not any(p.term is t for t in p.variable.terms)):
                    acc.violate("copy-reference", {"what": "Proposition"}, case, "proposition refers into the copy", str(p),
                                f"rule '{r.text}' of the copy refers to a variable/term outside the copy")
                    ok = False
    if snap(original) != snap(copy):
        acc.violate("copy-differs", {}, case, "identical structure", "differs", "copy() is structurally different from the original")
        ok = False
    return ok


# ----------------------------------------------------------------------------------------------------------------------
EDITS = ["edit-term", "edit-weight", "edit-operator", "edit-add-term", "edit-flip-output", "edit-flip-rule", "edit-flip-input"]
FLIPS = ("edit-flip-output", "edit-flip-rule", "edit-flip-input")
TOGGLES = ["toggle-rule", "toggle-input", "toggle-block", "toggle-output"]
OPS = ["in-r0", "in-r1", "in-rn", "in-batch", "process", "restart", "copy"] + EDITS + TOGGLES


def apply_edit(engine, edit: str) -> None:
    if edit == "edit-term":
        t = engine.input_variables[0].terms[0]
        t.top = t.top + 0.125
    elif edit == "edit-weight":
        engine.rule_blocks[0].rules[0].weight = 0.34375  # exact, but more decimals than the rule text shows
    elif edit == "edit-operator":
        engine.rule_blocks[0].conjunction = fl.EinsteinProduct()
    elif edit == "edit-add-term":
        engine.output_variables[0].terms.append(fl.Constant("extra", 0.125))
    elif edit == "edit-flip-output":  # a persistent flag change (applied twice = restored)
        ov = engine.output_variables[-1]
        ov.enabled = not ov.enabled
    elif edit == "edit-flip-rule":
        r = engine.rule_blocks[0].rules[-1]
        r.enabled = not r.enabled
    elif edit == "edit-flip-input":
        iv = engine.input_variables[0]
        iv.enabled = not iv.enabled


def set_row(engine, name: str):
    """Give the inputs; returns the values every input variable holds afterwards (whatever its flags are).
    in-batch and in-r1 go through the Engine.input_values setter (a matrix), the others through the variables."""
    if name == "in-batch":
        m = np.array(BATCH)
        engine.input_values = m
        return [np.array(BATCH)[:, k] for k in range(len(engine.input_variables))]  # (pristine copies, not views of m)
    row = ROWS[name[3:]]
    if name == "in-r1":
        m = np.array([list(row)])
        engine.input_values = m
        return [np.array([x]) for x in row]
    for iv, x in zip(engine.input_variables, row):
        iv.value = x
    return list(row)


class World:
    """The live engines of one history: `cur` (in use), `kept` (the original of the last copy), their edit lists."""

    def __init__(self, recipe) -> None:
        self.recipe = recipe
        self.cur = R.build(recipe)
        self.cur_edits: list[str] = []
        self.kept = None
        self.kept_edits: list[str] = []
        self.intended = None  # the input values given last (None: none since construction / restart)

    def fresh(self, edits):
        e = R.build(self.recipe)
        for ed in edits:
            apply_edit(e, ed)
        return e

    def toggle(self, which: str):
        e = self.cur
        return {"toggle-rule": e.rule_blocks[0].rules[0], "toggle-input": e.input_variables[0],
                "toggle-block": e.rule_blocks[-1], "toggle-output": e.output_variables[-1]}[which]


def process_checked(acc: Acc, case, w: World, check: bool) -> bool:
    e = w.cur
    raised = None
    try:
        e.process()
    except ValueError as ex:  # e.g. a vector-incapable activation method given a batch: the fresh engine must agree
        raised = ex
    acc.transitions += 1
    if check and w.intended is not None and raised is None:
        # processing reads the inputs: the values given last are still there, unchanged
        for iv, x in zip(e.input_variables, w.intended):
            if not np.array_equal(np.asarray(iv.value, dtype=float), np.asarray(x, dtype=float), equal_nan=True):
                acc.violate("inputs-modified", {"input": iv.name}, case, fval(x), fval(iv.value),
                            f"{w.recipe['name']}: process() changed the value of input {iv.name} from {fval(x)} to {fval(iv.value)}")
                return False
    if not check or (w.recipe["name"] == "locked" and raised is None):
        return True
    f = w.fresh(w.cur_edits)
    if w.intended is not None:  # the fresh engine is given the values the history GAVE last, not what the engine in use holds
        for a, x in zip(f.input_variables, w.intended):
            a.value = x
    # mirror enabled flags (toggle in progress)
    for a, b in zip(f.variables, e.variables):
        a.enabled = b.enabled
    for a, b in zip(f.rule_blocks, e.rule_blocks):
        a.enabled = b.enabled
        for ra, rb in zip(a.rules, b.rules):
            ra.enabled = rb.enabled
    fresh_raised = None
    try:
        f.process()
    except ValueError as ex:
        fresh_raised = ex
    acc.traces += 1
    if (raised is None) != (fresh_raised is None):
        acc.violate("history-dependent-exception", {}, case, repr(fresh_raised), repr(raised),
                    f"{w.recipe['name']}: process() raised {raised!r} after this history, a freshly built engine {fresh_raised!r}")
        return False
    if raised is not None:
        acc.cls("both_reject")
        return True
    for be, bf in zip(e.rule_blocks, f.rule_blocks):
        if not be.enabled:
            continue
        ge = [(fval(r.activation_degree), fval(r.triggered)) for r in be.rules]
        gf = [(fval(r.activation_degree), fval(r.triggered)) for r in bf.rules]
        if ge != gf:
            acc.violate("history-dependent-rule-state", {"block": be.name}, case, gf, ge,
                        f"{w.recipe['name']}: rule degrees/triggered flags {ge} after this history, a freshly built engine has {gf}")
            return False
    for ov, fv in zip(e.output_variables, f.output_variables):
        if not ov.enabled:
            continue
        g, wv = fval(ov.value), fval(fv.value)
        if len(g) != len(wv) or not all((x == y) or (x != "nan" and y != "nan" and close(x, y, 1e-12, 1e-12)) for x, y in zip(g, wv)):
            acc.violate("history-dependent", {"output": ov.name}, case, wv, g,
                        f"{w.recipe['name']}: output {ov.name} = {g} after this history, a freshly built engine gives {wv}")
            return False
    return True


def apply_op(acc: Acc, case, w: World, op: str, check: bool = True) -> bool:
    """Apply op to the world; with check=True evaluate the oracles. Returns False when a violation was recorded."""
    ok = True
    kept_before = snap(w.kept) if (check and w.kept is not None) else None
    if op.startswith("in-"):
        w.intended = set_row(w.cur, op)
    elif op == "process":
        ok = process_checked(acc, case, w, check)
    elif op == "restart":
        w.cur.restart()
        w.intended = None
        acc.transitions += 1
        if check:
            f = w.fresh(w.cur_edits)
            acc.traces += 1
            if snap(w.cur) != snap(f):
                diff = [k for k, (a, b) in enumerate(zip(snap(w.cur), snap(f))) if a != b]
                acc.violate("restart-not-clean", {"part": ["name", "inputs", "outputs", "blocks"][diff[0]] if diff else "?"}, case,
                            "digest of a freshly built engine", "differs", f"{w.recipe['name']}: after restart() the engine differs from a fresh one")
                ok = False
    elif op == "copy":
        c = w.cur.copy()
        acc.transitions += 1
        if check:
            ok = check_copy(acc, case, w.cur, c)
        w.kept, w.kept_edits = w.cur, list(w.cur_edits)
        w.cur = c
    elif op in FLIPS:
        apply_edit(w.cur, op)
        if op in w.cur_edits:
            w.cur_edits.remove(op)
        else:
            w.cur_edits.append(op)
    elif op in EDITS:
        if op not in w.cur_edits:
            apply_edit(w.cur, op)
            w.cur_edits.append(op)
    elif op in TOGGLES:
        target = w.toggle(op)
        old = target.enabled
        target.enabled = False
        ok = process_checked(acc, case, w, check)
        target.enabled = old
    if check and ok and kept_before is not None and op != "copy":
        if snap(w.kept) != kept_before:
            acc.violate("operation-leaks-into-other-engine", {"op": op.split("-")[0]}, case, "kept engine unchanged", "changed",
                        f"{w.recipe['name']}: {op} on the copy changed the original engine")
            ok = False
    return ok


def world_digest(w: World):
    return (snap(w.cur), tuple(w.cur_edits), snap(w.kept) if w.kept is not None else None, tuple(w.kept_edits))


def plan(tier: str, seed: int):
    # one shard per (engine, first operation): the BFS below the first operation is independent
    return [(e, first) for e in range(len(engine_recipes())) for first in OPS]


def run_shard(tier: str, seed: int, shard):
    e, first = shard
    acc = Acc(ID)
    recipe = engine_recipes()[e]
    depth = 4 if tier == "quick" else 5
    explore_from(acc, recipe, depth, first)
    if shard == (2, "copy"):
        acc.sample({"engine": recipe["name"], "history": ["copy", "edit-term", "in-r0", "process"],
                    "oracle": "outputs equal a freshly built engine with the same edit; the kept original's digest is unchanged"}, 1)
    return acc.result()


def explore_from(acc: Acc, recipe, depth: int, first: str) -> None:
    """BFS over all histories that start with `first` (sharding of the depth-bounded search)."""
    w = World(recipe)
    case = {"engine": recipe["name"], "history": [], "op": first}
    try:
        good = apply_op(acc, case, w, first, check=True)
    except Exception as ex:  # noqa: BLE001
        acc.violate("exception", {"type": type(ex).__name__, "op": first.split("-")[0]}, case, "no exception", repr(ex), f"{first} raised {type(ex).__name__}")
        return
    acc.case((recipe["name"], (), first), nontrivial=False)
    acc.cls(f"op_{first.split('-')[0]}")
    if not good:
        return
    seen = {world_digest(w): (first,)}
    frontier = collections.deque([(first,)])
    while frontier:
        hist = frontier.popleft()
        if len(hist) >= depth:
            continue
        for op in OPS:
            w = World(recipe)
            for h in hist:
                apply_op(acc, None, w, h, check=False)
            case = {"engine": recipe["name"], "history": list(hist), "op": op}
            try:
                good = apply_op(acc, case, w, op, check=True)
            except Exception as ex:  # noqa: BLE001
                acc.violate("exception", {"type": type(ex).__name__, "op": op.split("-")[0]}, case, "no exception", f"{type(ex).__name__}: {ex}",
                            f"{recipe['name']}: {op} after {list(hist)} raised {type(ex).__name__}: {str(ex)[:100]}")
                good = False
            acc.case((recipe["name"], hist, op), nontrivial=op in ("process", "restart", "copy") + tuple(TOGGLES))
            acc.cls(f"op_{op.split('-')[0]}")
            if not good:
                continue
            dg = world_digest(w)
            if dg not in seen:
                seen[dg] = hist + (op,)
                frontier.append(hist + (op,))
    acc.states += len(seen)


def summarize(tier: str, seed: int, merged: dict) -> dict:
    c = merged["classes"]
    vac = [f"outcome class {k} is empty" for k in ("op_process", "op_restart", "op_copy", "op_edit", "op_toggle") if not c.get(k)]
    depth = 4 if tier == "quick" else 5
    return {
        "rule": (
            f"{len(engine_recipes())} engines (Mamdani, Larsen with chained blocks, Takagi-Sugeno with Linear and a Function reading an input and an "
            f"earlier output, Tsukamoto, hybrid, lock-previous, First- and Last-activated, one with a Highest(3) activation object shared by two blocks) x all histories of length <= {depth} over {len(OPS)} operations "
            f"{OPS}, breadth-first with states merged on the structural digest of all live engines; states = distinct digests, "
            "transitions = operations executed with oracles on, traces = fresh-engine comparisons; non-trivial = process / "
            "restart / copy / toggle executed after at least one earlier operation"
        ),
        "exhaustive": True,
        "vacuity_errors": vac,
        "assumptions": ["the lock-previous engine is used for the restart/copy clauses only (its outputs are history dependent by design)"],
    }


def replay(case: dict):
    acc = Acc(ID)
    recipe = next(r for r in engine_recipes() if r["name"] == case["engine"])
    w = World(recipe)
    for h in case["history"]:
        apply_op(acc, None, w, h, check=False)
    try:
        apply_op(acc, case, w, case["op"], check=True)
    except Exception as ex:  # noqa: BLE001
        acc.violate("exception", {"type": type(ex).__name__}, case, "no exception", repr(ex), f"raised {type(ex).__name__}")
    return acc.violations

"""C12 - output values follow the lock-previous / default / lock-range cascade.

K2 explicit-state search to closure.  For each of the 12 settings (lock-previous x default {NaN, in range, out of
range} x lock-range) the reachable states of a real OutputVariable are explored breadth-first under the operation
alphabet {defuzzify(batch of 1..Lb scripted values, in every result shape real defuzzifiers produce), defuzzifier
failure, clear(), defuzzify while disabled, add an activation}; the reference model (vmc.ref.cascade) is stepped in
lock-step and compared after every transition.  A second driver explores the same machine through
Engine.process()/restart() on a Takagi-Sugeno engine whose real WeightedAverage produces exactly the scripted values.
States are merged on the digest of (model state, complete observable state of the real object); a state is rebuilt
by replaying its shortest history on a fresh object.
"""

from __future__ import annotations

import collections
import itertools
import math

import numpy as np

from ..explore import Acc
from ..lib import fl
from ..oracle import same
from ..ref.cascade import Cascade

ID = "C12"
LEVEL = "model_checking"
NAN = float("nan")
VALUES = [NAN, 0.25, 0.75, 2.0, -1.0]
DEFAULTS = [NAN, 0.5, 3.0]
SETTINGS = [(lp, d, lr) for lp in (False, True) for d in DEFAULTS for lr in (False, True)]


class Scripted(fl.Defuzzifier):
    """Harness-side defuzzifier returning the next scripted object (or raising)."""

    def __init__(self) -> None:
        self.next = None

    def defuzzify(self, term, minimum, maximum):
        nxt = self.next
        if isinstance(nxt, BaseException):
            raise nxt
        return nxt


def shaped(shape: str, rows):
    if shape == "0d":
        return np.array(rows[0])
    if shape == "np":
        return np.float64(rows[0])
    return np.array(rows, dtype=float)


def batches(max_len: int):
    out = []
    for n in range(1, max_len + 1):
        out += [list(r) for r in itertools.product(VALUES, repeat=n)]
    return out


def ops_a(max_len: int):
    ops = []
    for rows in batches(max_len):
        if len(rows) == 1:
            ops += [("defuzz", "0d", rows), ("defuzz", "np", rows), ("defuzz", "b1", rows)]
            ops.append(("disabled", "0d", rows))
        else:
            ops.append(("defuzz", "batch", rows))
    ops += [("fail", "RuntimeError"), ("fail", "ValueError"), ("clear",), ("activate",)]
    ops.append(("disabled", "batch", [0.25, NAN]))
    return ops


def ops_b(max_len: int):
    ops = []
    for rows in batches(max_len):
        if len(rows) == 1:
            ops += [("process", "float", rows), ("process", "b1", rows), ("process-disabled", "float", rows)]
        else:
            ops.append(("process", "batch", rows))
    ops.append(("restart",))
    return ops


def plan(tier: str, seed: int):
    return [(driver, s) for s in range(len(SETTINGS)) for driver in ("A", "B")]


# ---------------------------------------------------------------------------------------------------------------------
def build_a(setting):
    lp, d, lr = setting
    var = fl.OutputVariable("o", minimum=0.0, maximum=1.0, lock_range=lr, lock_previous=lp, default_value=d,
                            defuzzifier=Scripted(), terms=[fl.Triangle("t", 0.0, 0.5, 1.0)])
    return var


INPUT_OF = {0.25: 0.25, 0.75: 1.25, 2.0: 2.25, -1.0: 3.25}


def build_b(setting):
    lp, d, lr = setting
    consts = [0.25, 0.75, 2.0, -1.0]
    iv = fl.InputVariable("i", minimum=0.0, maximum=10.0,
                          terms=[fl.Rectangle(f"b{k}", float(k), k + 0.5) for k in range(4)])
    ov = fl.OutputVariable("o", minimum=0.0, maximum=1.0, lock_range=lr, lock_previous=lp, default_value=d,
                           defuzzifier=fl.WeightedAverage(), terms=[fl.Constant(f"c{k}", consts[k]) for k in range(4)])
    rb = fl.RuleBlock("rb", activation=fl.General(),
                      rules=[fl.Rule.create(f"if i is b{k} then o is c{k}") for k in range(4)])
    return fl.Engine("e", input_variables=[iv], output_variables=[ov], rule_blocks=[rb])


def to_inputs(rows):
    return [9.0 if v != v else INPUT_OF[v] for v in rows]


def apply_a(var, model: Cascade | None, op):
    """Apply op on the real variable (and the model). Returns the exception raised by the real call, if any."""
    kind = op[0]
    raised = None
    if kind in ("defuzz", "disabled"):
        _, shape, rows = op
        var.defuzzifier.next = shaped(shape, rows)
        if kind == "disabled":
            var.enabled = False
            if model:
                model.enabled = False
        try:
            var.defuzzify()
        except Exception as ex:  # noqa: BLE001
            raised = ex
        if model:
            model.defuzzify(list(rows))
        if kind == "disabled":
            var.enabled = True
            if model:
                model.enabled = True
    elif kind == "fail":
        var.defuzzifier.next = {"RuntimeError": RuntimeError, "ValueError": ValueError}[op[1]]("scripted failure")
        try:
            var.defuzzify()
        except Exception as ex:  # noqa: BLE001
            raised = ex
    elif kind == "clear":
        var.clear()
        if model:
            model.clear()
    elif kind == "activate":
        if len(var.fuzzy.terms) < 1:
            var.fuzzy.terms.append(fl.Activated(var.terms[0], 0.5, fl.Minimum()))
    return raised


def apply_b(engine, model: Cascade | None, op):
    kind = op[0]
    raised = None
    ov = engine.output_variables[0]
    if kind in ("process", "process-disabled"):
        _, shape, rows = op
        xs = to_inputs(rows)
        engine.input_variables[0].value = xs[0] if shape == "float" else np.array(xs)
        if kind == "process-disabled":
            ov.enabled = False
            if model:
                model.enabled = False
        try:
            engine.process()
        except Exception as ex:  # noqa: BLE001
            raised = ex
        if model:
            model.defuzzify(list(rows))
        if kind == "process-disabled":
            ov.enabled = True
            if model:
                model.enabled = True
    elif kind == "restart":
        engine.restart()
        if model:
            model.clear()
    return raised


def observe(var):
    rows = [float(v) for v in np.atleast_1d(np.asarray(var.value, dtype=float)).ravel()]
    prev = float(np.asarray(var.previous_value, dtype=float))
    return rows, prev


def digest(rows, prev, nfuzzy):
    def k(x):
        return "nan" if x != x else x

    return (tuple(k(v) for v in rows), k(prev), nfuzzy)


def rows_equal(a, b) -> bool:
    return len(a) == len(b) and all(same(x, y) for x, y in zip(a, b))


def explore(acc: Acc, driver: str, setting, max_len: int, only_history=None) -> None:
    lp, d, lr = setting
    build = build_a if driver == "A" else build_b
    apply = apply_a if driver == "A" else apply_b
    ops = ops_a(max_len) if driver == "A" else ops_b(max_len)
    name = {"lock_previous": lp, "default": d, "lock_range": lr}

    def var_of(obj):
        return obj if driver == "A" else obj.output_variables[0]

    def rebuild(history):
        obj = build(setting)
        model = Cascade(lp, d, lr, 0.0, 1.0)
        for op in history:
            apply(obj, model, op)
        return obj, model

    def step(history, op):
        """Execute op after history on a fresh object; compare; return the new state's digest or None."""
        obj, model = rebuild(history)
        var = var_of(obj)
        before_rows, before_prev = observe(var)
        before_terms = list(var.fuzzy.terms)
        raised = apply(obj, model, op)
        acc.transitions += 1
        acc.traces += 1
        case = {"driver": driver, "setting": name, "history": [list(o) for o in history], "op": list(op)}
        rows, prev = observe(var)
        nontrivial = any(v != v for v in (op[2] if len(op) > 2 else [])) and (lp or d == d)
        acc.case((driver, setting, tuple(map(str, history)), str(op)), nontrivial=nontrivial)
        ok = True
        if op[0] == "fail":
            acc.cls("fault_injected")
            if not isinstance(raised, (RuntimeError, ValueError)) or str(raised) != "scripted failure":
                acc.violate("fault-not-propagated", {}, case, "scripted failure", repr(raised), "defuzzifier failure swallowed or replaced")
                ok = False
            if not (rows_equal(rows, before_rows) and same(prev, before_prev)
                    and len(var.fuzzy.terms) == len(before_terms)
                    and all(a is b for a, b in zip(var.fuzzy.terms, before_terms))):
                acc.violate("state-changed-by-failed-defuzzification", {}, case, [before_rows, before_prev, len(before_terms)],
                            [rows, prev, len(var.fuzzy.terms)],
                            f"{name}: a failing defuzzifier changed value/previous/fuzzy: {before_rows, before_prev} -> {rows, prev}")
                ok = False
        elif raised is not None:
            acc.violate("exception", {"type": type(raised).__name__, "shape": op[1] if len(op) > 1 else ""}, case,
                        [model.value, model.previous], f"{type(raised).__name__}: {raised}",
                        f"{name} after {len(history)} ops, {op}: {type(raised).__name__}: {str(raised)[:120]}")
            ok = False
        if ok and not (rows_equal(rows, model.value) and same(prev, model.previous)):
            acc.violate("cascade", {"field": "value" if not rows_equal(rows, model.value) else "previous_value"}, case,
                        {"value": model.value, "previous": model.previous}, {"value": rows, "previous": prev},
                        f"{name} history={history} op={op}: value={rows} previous={prev}, "
                        f"expected value={model.value} previous={model.previous}")
            ok = False
        if op[0] in ("disabled", "process-disabled"):
            acc.cls("disabled_call")
        if op[0] in ("clear", "restart"):
            acc.cls("cleared")
        if not ok:
            return None
        return digest(rows, prev, len(var.fuzzy.terms))

    if only_history is not None:
        history, op = only_history
        step(history, op)
        return

    obj, _ = rebuild(())
    r0, p0 = observe(var_of(obj))
    start = digest(r0, p0, 0)
    seen = {start: ()}
    frontier = collections.deque([()])
    depth_max = 0
    while frontier:
        hist = frontier.popleft()
        depth_max = max(depth_max, len(hist))
        for op in ops:
            dg = step(hist, op)
            if dg is not None and dg not in seen:
                seen[dg] = hist + (op,)
                frontier.append(hist + (op,))
    acc.states += len(seen)
    acc.extra[f"max_depth_{driver}"] = max(acc.extra.get(f"max_depth_{driver}", 0), depth_max)
    if setting == SETTINGS[7]:
        longest = max(seen.values(), key=len)
        acc.sample({"driver": driver, "setting": name, "history": [list(o) for o in longest], "reached": list(map(str, seen))[-1]}, 1)


def run_shard(tier: str, seed: int, shard):
    driver, s = shard
    acc = Acc(ID)
    max_len = 2 if tier == "quick" else 3
    explore(acc, driver, SETTINGS[s], max_len)
    return acc.result()


def summarize(tier: str, seed: int, merged: dict) -> dict:
    vac = []
    for cls in ("fault_injected", "disabled_call", "cleared"):
        if not merged["classes"].get(cls):
            vac.append(f"outcome class {cls} is empty")
    max_len = 2 if tier == "quick" else 3
    return {
        "rule": (
            f"BFS to closure of the reachable states of OutputVariable under 12 settings; operations: defuzzify with every "
            f"batch of 1..{max_len} values over {['nan', 0.25, 0.75, 2.0, -1.0]} (result shapes: 0-d array, numpy scalar, "
            "1-element array, 1-D array), defuzzifier failure (2 exception classes), clear(), defuzzify while disabled, add "
            "an activation; driver B: Engine.process (float / array inputs) and restart on a WeightedAverage engine. "
            "Because the search runs to closure, histories of every length are covered for batches up to the stated size. "
            "states = distinct (model, real) states; transitions = operations executed on a fresh real object after "
            "replaying the shortest history of the source state; non-trivial = the call contains a NaN row and "
            "lock-previous or a default is set"
        ),
        "exhaustive": True,
        "vacuity_errors": vac,
        "assumptions": ["sequential (row-by-row) semantics of the cascade as stated in the property"],
        "coverage": {"settings": len(SETTINGS), "max_batch": max_len},
    }


def _unjson(x):
    if isinstance(x, list):
        return [_unjson(v) for v in x]
    if x in ("nan", "inf", "-inf"):
        return float(x)
    return x


def replay(case: dict):
    acc = Acc(ID)
    st = case["setting"]
    setting = (st["lock_previous"], float(_unjson(st["default"])), st["lock_range"])
    history = tuple(tuple(_unjson(o)) for o in case["history"])
    op = tuple(_unjson(case["op"]))
    explore(acc, case["driver"], setting, 1, only_history=(history, op))
    return acc.violations

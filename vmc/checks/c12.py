"""C12 - output values follow the lock-previous / default / lock-range cascade.

K2 explicit-state search to closure.  For each of the 12 settings (lock-previous x default {NaN, in range, out of
range} x lock-range) the reachable states of a real OutputVariable are explored breadth-first under the operation
alphabet {defuzzify(batch of 1..Lb scripted values, in every result shape real defuzzifiers produce), defuzzifier
failure, clear(), defuzzify while disabled, add an activation}; the reference model (vmc.ref.cascade) is stepped in
lock-step and compared after every transition.  A second driver explores the same machine through
Engine.process()/restart() on a Takagi-Sugeno engine whose real WeightedAverage produces exactly the scripted values.
States are merged on the digest of (model state, complete observable state of the real object); a state is rebuilt
by replaying its shortest history on a fresh object.
"""

from __future__ import annotations

import collections
import itertools
import math

import numpy as np

from ..explore import Acc
from ..lib import fl
from ..oracle import same
from ..ref.cascade import Cascade

ID = "C12"
LEVEL = "model_checking"
NAN = float("nan")
INF = float("inf")
VALUES = [NAN, 0.25, 0.75, 2.0, -1.0, INF]
DEFAULTS = [NAN, 0.5, 3.0]
# (lock-previous, default, lock-range, minimum, maximum): the 12 settings of the statement on [0, 1] ...
SETTINGS = [(lp, d, lr, 0.0, 1.0) for lp in (False, True) for d in DEFAULTS for lr in (False, True)]
N_BASE = len(SETTINGS)
# ... plus an infinite default and half-open ranges (only one bound to clip at)
SETTINGS += [(lp, float("inf"), lr, 0.0, 1.0) for lp in (False, True) for lr in (False, True)]
SETTINGS += [(True, d, True, lo, hi) for d in (NAN, 0.5, float("inf")) for lo, hi in ((0.0, float("inf")), (float("-inf"), 1.0))]
# ... and a default of exactly 0.0 (a falsy number is still a default)
SETTINGS += [(lp, 0.0, lr, 0.0, 1.0) for lp in (False, True) for lr in (False, True)]


# exception classes a defuzzifier can fail with (arithmetic ones included: numpy raises them under np.errstate(all="raise"))
FAILURES = {"RuntimeError": RuntimeError, "ValueError": ValueError, "ZeroDivisionError": ZeroDivisionError,
            "FloatingPointError": FloatingPointError, "OverflowError": OverflowError, "TypeError": TypeError}


class Scripted(fl.Defuzzifier):
    """Harness-side defuzzifier returning the next scripted object (or raising)."""

    def __init__(self) -> None:
        self.next = None

    def defuzzify(self, term, minimum, maximum):
        nxt = self.next
        if isinstance(nxt, BaseException):
            raise nxt
        return nxt


def shaped(shape: str, rows):
    if shape == "0d":
        return np.array(rows[0])
    if shape == "np":
        return np.float64(rows[0])
    if shape == "column":  # a column of a row-major matrix: a non-contiguous view with a positive stride
        m = np.zeros((len(rows), 2))
        m[:, 0] = rows
        return m[:, 0]
    if shape == "reversed":  # a reversed view: negative stride (row order is the LOGICAL order, not the memory order)
        return np.array(rows[::-1], dtype=float)[::-1]
    return np.array(rows, dtype=float)


def batches(max_len: int):
    out = []
    for n in range(1, max_len + 1):
        out += [list(r) for r in itertools.product(VALUES, repeat=n)]
    return out


def ops_a(max_len: int):
    ops = []
    for rows in batches(max_len):
        if len(rows) == 1:
            ops += [("defuzz", "0d", rows), ("defuzz", "np", rows), ("defuzz", "b1", rows)]
            ops.append(("disabled", "0d", rows))
        else:
            ops.append(("defuzz", "batch", rows))
            if any(v != v for v in rows):
                ops += [("defuzz", "column", rows), ("defuzz", "reversed", rows)]
    ops += [("fail", f) for f in FAILURES] + [("clear",), ("clear-disabled",), ("activate",)]
    ops.append(("disabled", "batch", [0.25, NAN]))
    return ops


def ops_b(max_len: int):
    ops = []
    for rows in batches(max_len):
        if len(rows) == 1:
            ops += [("process", "float", rows), ("process", "b1", rows), ("process-disabled", "float", rows)]
        else:
            ops.append(("process", "batch", rows))
    ops += [("restart",), ("restart-disabled",), ("restart-noblocks",)]
    return ops


def plan(tier: str, seed: int):
    shards = [(driver, s, part) for s in range(len(SETTINGS)) for driver in ("A", "B") for part in range(PARTS)]
    shards += [("T", s, 0) for s in range(N_BASE)]  # TLC model + conformance replay of its state graph (the 12 settings)
    return shards


# ---------------------------------------------------------------------------------------------------------------------
def build_a(setting):
    lp, d, lr, lo, hi = setting
    var = fl.OutputVariable("o", minimum=lo, maximum=hi, lock_range=lr, lock_previous=lp, default_value=d,
                            defuzzifier=Scripted(), terms=[fl.Triangle("t", 0.0, 0.5, 1.0)])
    return var


INPUT_OF = {0.25: 0.25, 0.75: 1.25, 2.0: 2.25, -1.0: 3.25, INF: 4.25}


def build_b(setting):
    lp, d, lr, lo, hi = setting
    consts = [0.25, 0.75, 2.0, -1.0, INF]
    iv = fl.InputVariable("i", minimum=0.0, maximum=10.0,
                          terms=[fl.Rectangle(f"b{k}", float(k), k + 0.5) for k in range(5)])
    ov = fl.OutputVariable("o", minimum=lo, maximum=hi, lock_range=lr, lock_previous=lp, default_value=d,
                           defuzzifier=fl.WeightedAverage(), terms=[fl.Constant(f"c{k}", consts[k]) for k in range(5)])
    # two rule blocks: the variable is defuzzified once per process() call, after ALL blocks
    rb1 = fl.RuleBlock("rb1", activation=fl.General(), rules=[fl.Rule.create(f"if i is b{k} then o is c{k}") for k in range(3)])
    rb2 = fl.RuleBlock("rb2", activation=fl.General(), rules=[fl.Rule.create(f"if i is b{k} then o is c{k}") for k in range(3, 5)])
    return fl.Engine("e", input_variables=[iv], output_variables=[ov], rule_blocks=[rb1, rb2])


def to_inputs(rows):
    return [9.0 if v != v else INPUT_OF[v] for v in rows]


def apply_a(var, model: Cascade | None, op):
    """Apply op on the real variable (and the model). Returns the exception raised by the real call, if any."""
    kind = op[0]
    raised = None
    if kind in ("defuzz", "disabled"):
        _, shape, rows = op
        var.defuzzifier.next = shaped(shape, rows)
        if kind == "disabled":
            var.enabled = False
            if model:
                model.enabled = False
        try:
            var.defuzzify()
        except Exception as ex:  # noqa: BLE001
            raised = ex
        if model:
            model.defuzzify(list(rows))
        if kind == "disabled":
            var.enabled = True
            if model:
                model.enabled = True
    elif kind == "fail":
        var.defuzzifier.next = FAILURES[op[1]]("scripted failure")
        try:
            var.defuzzify()
        except Exception as ex:  # noqa: BLE001
            raised = ex
    elif kind in ("clear", "clear-disabled"):
        if kind == "clear-disabled":  # clearing is not guarded by the enabled flag
            var.enabled = False
        var.clear()
        var.enabled = True
        if model:
            model.clear()
    elif kind == "activate":
        if len(var.fuzzy.terms) < 1:
            var.fuzzy.terms.append(fl.Activated(var.terms[0], 0.5, fl.Minimum()))
    return raised


def apply_b(engine, model: Cascade | None, op):
    kind = op[0]
    raised = None
    ov = engine.output_variables[0]
    if kind in ("process", "process-disabled"):
        _, shape, rows = op
        xs = to_inputs(rows)
        engine.input_variables[0].value = xs[0] if shape == "float" else np.array(xs)
        if kind == "process-disabled":
            ov.enabled = False
            if model:
                model.enabled = False
        try:
            engine.process()
        except Exception as ex:  # noqa: BLE001
            raised = ex
        if model:
            model.defuzzify(list(rows))
        if kind == "process-disabled":
            ov.enabled = True
            if model:
                model.enabled = True
    elif kind in ("restart", "restart-disabled", "restart-noblocks"):
        if kind == "restart-disabled":
            ov.enabled = False
        blocks = list(engine.rule_blocks)
        if kind == "restart-noblocks":  # restarting an engine that has no rule blocks (yet) clears its outputs all the same
            engine.rule_blocks = []
        engine.restart()
        engine.rule_blocks = blocks
        ov.enabled = True
        if model:
            model.clear()
    return raised


def observe(var):
    rows = [float(v) for v in np.atleast_1d(np.asarray(var.value, dtype=float)).ravel()]
    prev = float(np.asarray(var.previous_value, dtype=float))
    return rows, prev


def digest(rows, prev, nfuzzy):
    def k(x):
        return "nan" if x != x else x

    return (tuple(k(v) for v in rows), k(prev), nfuzzy)


def rows_equal(a, b) -> bool:
    return len(a) == len(b) and all(same(x, y) for x, y in zip(a, b))


PARTS = 4


def model_states(driver: str, setting, max_len: int):
    """Reachable states of the REFERENCE MODEL (breadth-first, to closure) with a shortest history for each.  The real
    object is then driven through every (state, operation) pair; as long as it agrees with the model on every
    transition its reachable state space is the model's, and the first disagreement is reported as a violation."""
    lp, d, lr, lo, hi = setting
    ops = ops_a(max_len) if driver == "A" else ops_b(max_len)

    def run(history):
        m = Cascade(lp, d, lr, lo, hi)
        nf = 0
        for op in history:
            kind = op[0]
            if kind in ("defuzz", "process"):
                m.defuzzify(list(op[2]))
                if kind == "process":
                    nf = 1
            elif kind in ("clear", "restart", "clear-disabled", "restart-disabled", "restart-noblocks"):
                m.clear()
                nf = 0
            elif kind == "activate":
                nf = 1
        return m.key() + (nf,)

    seen = {run(()): ()}
    frontier = collections.deque([()])
    while frontier:
        hist = frontier.popleft()
        for op in ops:
            k = run(hist + (op,))
            if k not in seen:
                seen[k] = hist + (op,)
                frontier.append(hist + (op,))
    return list(seen.values()), ops


def explore(acc: Acc, driver: str, setting, max_len: int, only_history=None, part: int = 0, parts: int = 1) -> None:
    lp, d, lr, lo, hi = setting
    build = build_a if driver == "A" else build_b
    apply = apply_a if driver == "A" else apply_b
    ops = ops_a(max_len) if driver == "A" else ops_b(max_len)
    name = {"lock_previous": lp, "default": d, "lock_range": lr, "range": [lo, hi]}

    def var_of(obj):
        return obj if driver == "A" else obj.output_variables[0]

    def rebuild(history):
        obj = build(setting)
        model = Cascade(lp, d, lr, lo, hi)
        for op in history:
            apply(obj, model, op)
        return obj, model

    def step(history, op):
        """Execute op after history on a fresh object; compare; return the new state's digest or None."""
        obj, model = rebuild(history)
        var = var_of(obj)
        before_rows, before_prev = observe(var)
        before_terms = list(var.fuzzy.terms)
        raised = apply(obj, model, op)
        acc.transitions += 1
        acc.traces += 1
        case = {"driver": driver, "setting": name, "history": [list(o) for o in history], "op": list(op)}
        rows, prev = observe(var)
        nontrivial = any(v != v for v in (op[2] if len(op) > 2 else [])) and (lp or d == d)
        acc.case((driver, setting, tuple(map(str, history)), str(op)), nontrivial=nontrivial)
        ok = True
        if op[0] == "fail":
            acc.cls("fault_injected")
            if type(raised) is not FAILURES[op[1]] or str(raised) != "scripted failure":
                acc.violate("fault-not-propagated", {}, case, "scripted failure", repr(raised), "defuzzifier failure swallowed or replaced")
                ok = False
            if not (rows_equal(rows, before_rows) and same(prev, before_prev)
                    and len(var.fuzzy.terms) == len(before_terms)
                    and all(a is b for a, b in zip(var.fuzzy.terms, before_terms))):
                acc.violate("state-changed-by-failed-defuzzification", {}, case, [before_rows, before_prev, len(before_terms)],
                            [rows, prev, len(var.fuzzy.terms)],
                            f"{name}: a failing defuzzifier changed value/previous/fuzzy: {before_rows, before_prev} -> {rows, prev}")
                ok = False
        elif raised is not None:
            acc.violate("exception", {"type": type(raised).__name__, "shape": op[1] if len(op) > 1 else ""}, case,
                        [model.value, model.previous], f"{type(raised).__name__}: {raised}",
                        f"{name} after {len(history)} ops, {op}: {type(raised).__name__}: {str(raised)[:120]}")
            ok = False
        if ok and not (rows_equal(rows, model.value) and same(prev, model.previous)):
            acc.violate("cascade", {"field": "value" if not rows_equal(rows, model.value) else "previous_value"}, case,
                        {"value": model.value, "previous": model.previous}, {"value": rows, "previous": prev},
                        f"{name} history={history} op={op}: value={rows} previous={prev}, "
                        f"expected value={model.value} previous={model.previous}")
            ok = False
        if op[0] in ("disabled", "process-disabled"):
            acc.cls("disabled_call")
        if op[0] in ("clear", "restart", "clear-disabled", "restart-disabled", "restart-noblocks"):
            acc.cls("cleared")
        if not ok:
            return None
        return digest(rows, prev, len(var.fuzzy.terms))

    if only_history is not None:
        history, op = only_history
        step(history, op)
        return

    histories, _ = model_states(driver, setting, max_len)
    k = 0
    for hist in histories:
        for op in ops:
            k += 1
            if k % parts != part:
                continue
            step(hist, op)
    if part == 0:
        acc.states += len(histories)
        acc.extra[f"shortest_history_lengths_summed_over_settings_{driver}"] += max(len(h) for h in histories)
    if setting == SETTINGS[7] and part == 0:
        longest = max(histories, key=len)
        acc.sample({"driver": driver, "setting": name, "history": [list(o) for o in longest]}, 1)


# ---------------------------------------------------------------------------------------------------------------------
# TLC add-on: the TLA+ model vmc/tla/Cascade.tla is checked by TLC and every edge of its dumped state graph is replayed
# on the real OutputVariable (conformance of the model to the implementation, all behaviours, not only counterexamples)
# ---------------------------------------------------------------------------------------------------------------------
SYMBOL = {"nan": NAN, "in1": 0.25, "in2": 0.75, "above": 2.0, "below": -1.0, "lo": 0.0, "hi": 1.0, "defin": 0.5, "defout": 3.0}
TLA_JAR = "/opt/veriftools/tla/tla2tools.jar:/opt/veriftools/tla/CommunityModules-deps.jar"


def run_tlc(setting):
    import os
    import re
    import shutil
    import subprocess
    import tempfile

    lp, d, lr = setting[:3]
    kind = "none" if d != d else ("in" if d == 0.5 else "out")
    here = os.path.join(os.path.dirname(os.path.dirname(os.path.abspath(__file__))), "tla")
    work = tempfile.mkdtemp(prefix="vmc-tlc-")
    try:
        shutil.copy(os.path.join(here, "Cascade.tla"), work)
        with open(os.path.join(work, "Cascade.cfg"), "w") as fh:
            fh.write(f'CONSTANTS LockPrev = {"TRUE" if lp else "FALSE"} DefaultKind = "{kind}" LockRange = {"TRUE" if lr else "FALSE"}\n'
                     "INIT Init\nNEXT Next\nINVARIANTS InRange NoNaNWithDefault LockedNeverLosesValue\nPROPERTIES PreviousIsOldValue\n")
        cmd = ["java", "-Xmx512m", "-XX:+UseSerialGC", "-cp", TLA_JAR, "tlc2.TLC", "-workers", "1", "-noGenerateSpecTE",
               "-metadir", os.path.join(work, "meta"), "-dump", "dot,actionlabels", os.path.join(work, "graph"),
               "-config", "Cascade.cfg", "Cascade.tla"]
        try:
            r = subprocess.run(cmd, cwd=work, capture_output=True, text=True, timeout=600)
        except (OSError, subprocess.TimeoutExpired) as ex:
            return "unavailable", repr(ex)
        out = r.stdout + r.stderr
        if "Model checking completed" not in out and "Error:" not in out and "violated" not in out:
            return "unavailable", out[-500:]
        if "No error has been found" not in out:
            return None, out[-2000:]
        dot = open(os.path.join(work, "graph.dot")).read()
    finally:
        shutil.rmtree(work, ignore_errors=True)
    nodes, edges = {}, []
    for m in re.finditer(r'^(-?\d+) \[label="([^"\\]*(?:\\.[^"\\]*)*)"', dot, re.M):
        fields = dict(re.findall(r'(\w+) = \\"(\w+)\\"', m.group(2)))
        nodes[m.group(1)] = (fields["value"], fields["previous"], fields["op"])
    for m in re.finditer(r'^(-?\d+) -> (-?\d+) \[label="([^"\\]*(?:\\.[^"\\]*)*)"', dot, re.M):
        edges.append((m.group(1), m.group(2), m.group(3)))
    stats = re.search(r"(\d+) states generated, (\d+) distinct states found", out)
    return (nodes, edges, int(stats.group(1)), int(stats.group(2))), out[-500:]


def tlc_conformance(acc: Acc, setting) -> None:
    name = {"lock_previous": setting[0], "default": setting[1], "lock_range": setting[2], "range": [setting[3], setting[4]]}
    res, log = run_tlc(setting)
    case0 = {"driver": "T", "setting": name, "history": [], "op": ["tlc"]}
    if res == "unavailable":
        acc.cls("tlc_unavailable")  # java/TLC could not be started: the Python search above remains the decision procedure
        return
    if res is None:
        acc.violate("tlc-model-error", {}, case0, "No error has been found", log[-400:], "TLC reports an error in the cascade model (or could not run)")
        return
    nodes, edges, generated, distinct = res
    acc.extra["tlc_states_generated"] += generated
    acc.extra["tlc_distinct_states"] += distinct
    acc.states += len(nodes)
    # shortest operation path from the initial state to every node
    init = next(k for k, v in nodes.items() if v[2] == "init")
    succ = collections.defaultdict(list)
    for a, b, _ in edges:
        succ[a].append(b)
    path = {init: ()}
    queue = collections.deque([init])
    while queue:
        k = queue.popleft()
        for b in succ[k]:
            if b not in path:
                path[b] = path[k] + (nodes[b][2],)
                queue.append(b)

    def to_op(symbol):
        if symbol == "fail":
            return ("fail", "RuntimeError")
        if symbol == "clear":
            return ("clear",)
        return ("defuzz", "np" if symbol in ("in1", "nan") else "0d", [SYMBOL[symbol]])

    for a, b, label in edges:
        var = build_a(setting)
        for sym in path[a]:
            apply_a(var, None, to_op(sym))
        op = to_op(nodes[b][2])
        apply_a(var, None, op)
        rows, prev = observe(var)
        want_v, want_p = SYMBOL[nodes[b][0]], SYMBOL[nodes[b][1]]
        acc.transitions += 1
        acc.traces += 1
        acc.extra["tlc_edges_replayed"] += 1
        acc.case(("T", setting, a, b), nontrivial=nodes[b][2] == "nan")
        case = {"driver": "T", "setting": name, "history": [list(to_op(s)) for s in path[a]], "op": list(op), "tlc_edge": label}
        if not (len(rows) == 1 and same(rows[0], want_v) and same(prev, want_p)):
            acc.violate("tlc-conformance", {"field": "value" if not (len(rows) == 1 and same(rows[0], want_v)) else "previous_value"}, case,
                        {"value": want_v, "previous": want_p}, {"value": rows, "previous": prev},
                        f"{name}: TLC edge {label} from {nodes[a][:2]} leads to {nodes[b][:2]}, the implementation to value={rows} previous={prev}")


def run_shard(tier: str, seed: int, shard):
    driver, s, part = shard
    acc = Acc(ID)
    max_len = 2 if tier == "quick" else 3
    if driver == "T":
        acc.guard({"driver": "T", "setting": list(SETTINGS[s]), "history": [], "op": ["tlc"]}, tlc_conformance, acc, SETTINGS[s])
        if not acc.classes.get("tlc_unavailable"):
            acc.cls("tlc_models_checked")
    else:
        explore(acc, driver, SETTINGS[s], max_len, part=part, parts=PARTS)
    return acc.result()


def summarize(tier: str, seed: int, merged: dict) -> dict:
    vac = []
    for cls in ("fault_injected", "disabled_call", "cleared"):
        if not merged["classes"].get(cls):
            vac.append(f"outcome class {cls} is empty")
    max_len = 2 if tier == "quick" else 3
    if tier == "thorough" and merged["classes"].get("tlc_models_checked", 0) != N_BASE:
        vac.append("the TLC add-on did not check all 12 settings")
    return {
        "rule": (
            f"BFS to closure of the reachable states of OutputVariable under {len(SETTINGS)} settings (the 12 of the statement on [0,1], an infinite default, half-open ranges); operations: defuzzify with every "
            f"batch of 1..{max_len} values over {['nan', 0.25, 0.75, 2.0, -1.0, 'inf']} (result shapes: 0-d array, numpy scalar, "
            f"1-element array, 1-D array, non-contiguous column view, reversed view), defuzzifier failure ({len(FAILURES)} exception classes), clear() (also while disabled), defuzzify while disabled, add "
            "an activation; driver B: Engine.process (float / array inputs) and restart (also while disabled / without rule blocks) on a WeightedAverage engine with two rule blocks. "
            "Because the search runs to closure, histories of every length are covered for batches up to the stated size. "
            "states = distinct (model, real) states; transitions = operations executed on a fresh real object after "
            "replaying the shortest history of the source state; non-trivial = the call contains a NaN row and "
            "lock-previous or a default is set"
            + (". Additionally vmc/tla/Cascade.tla is model-checked by TLC for each setting (invariants InRange, "
               "NoNaNWithDefault, LockedNeverLosesValue, action property PreviousIsOldValue) and every edge of its dumped state "
               "graph is replayed on the real OutputVariable (counters tlc_distinct_states, tlc_edges_replayed)" if merged["classes"].get("tlc_models_checked") else "")
        ),
        "exhaustive": True,
        "vacuity_errors": vac,
        "assumptions": ["sequential (row-by-row) semantics of the cascade as stated in the property"],
        "coverage": {"settings": len(SETTINGS), "max_batch": max_len},
    }


def _unjson(x):
    if isinstance(x, list):
        return [_unjson(v) for v in x]
    if x in ("nan", "inf", "-inf"):
        return float(x)
    return x


def replay(case: dict):
    acc = Acc(ID)
    st = case["setting"]
    rng = _unjson(st.get("range", [0.0, 1.0]))
    setting = (st["lock_previous"], float(_unjson(st["default"])), st["lock_range"], float(rng[0]), float(rng[1]))
    history = tuple(tuple(_unjson(o)) for o in case["history"])
    op = tuple(_unjson(case["op"]))
    if case["driver"] == "T":
        var = build_a(setting)
        for h in history:
            apply_a(var, None, h)
        apply_a(var, None, op)
        model = Cascade(setting[0], setting[1], setting[2], setting[3], setting[4])
        scratch = build_a(setting)
        for h in history + (op,):
            apply_a(scratch, model, h)
        rows, prev = observe(var)
        if not (rows_equal(rows, model.value) and same(prev, model.previous)):
            acc.violate("tlc-conformance", {}, case, [model.value, model.previous], [rows, prev], "replayed TLC edge differs from the cascade")
        return acc.violations
    explore(acc, case["driver"], setting, 1, only_history=(history, op))
    return acc.violations

"""C19 - an engine reported ready can be processed.

K1, all subsets: skeleton engines (1-2 rule blocks x 1-2 output variables; each block's rules use neither / `and` /
`or` / both; each output integral (Centroid) or weighted (WeightedAverage over Constants); rules conclude into one
or both outputs) x EVERY subset of {conjunction, disjunction, implication} per block and {aggregation, defuzzifier}
per output removed.  Oracle: (=>) ready implies Engine.process() raises nothing on 3 finite rows; (<=) every
component the reference says is needed and missing is named in the error list.
"""

from __future__ import annotations

import itertools

from ..explore import Acc
from ..lib import fl

ID = "C19"
LEVEL = "model_checking"
USAGES = ["none", "and", "or", "both", "mixed", "mixed-right", "and-disabled", "or-disabled", "none-unloaded"]
ACTIVATIONS = [("General",), ("Proportional",), ("Highest", 2), ("Lowest", 2), ("First", 2, 0.0), ("Last", 2, 0.0), ("Threshold", ">=", 0.0)]
TARGETS = {1: ["o1"], 2: ["o1", "o2", "o1+o2"]}
KINDS = ["integral", "weighted"]
ROWS = [(0.25, 0.5), (0.5, 0.5), (0.0, 1.0)]


def antecedents(usage: str):
    return {
        "none": ["a is t", "b is t"],
        "and": ["a is t and b is t", "a is t"],
        "or": ["a is t or b is t", "b is t"],
        "both": ["a is t and b is t", "a is t or b is t"],
        "mixed": ["a is t and b is t or a is t", "b is t"],  # both connectives in ONE antecedent
        "mixed-right": ["a is t or b is t and a is t", "b is t"],  # the `and` sits inside the right operand of the `or`
        "none-unloaded": ["a is t", "b is t", "b is t"],  # the third rule is left unloaded (activation methods skip it)
        "and-disabled": ["a is t and b is t", "a is t"],     # the connective only occurs in a disabled rule
        "or-disabled": ["a is t or b is t", "b is t"],
    }[usage]


def consequent(target: str) -> str:
    return " and ".join(f"{o} is x" for o in target.split("+"))


def skeletons(tier: str):
    out = []
    for nb, no in ((1, 1), (1, 2), (2, 1), (2, 2)):
        for usages in itertools.product(USAGES, repeat=nb):
            if tier == "quick" and (nb, no) == (2, 2) and usages not in (("and", "or"), ("or", "and"), ("both", "none"), ("none", "both"), ("mixed", "and-disabled"), ("or-disabled", "mixed"),
                                                                        ("mixed-right", "none-unloaded"), ("none-unloaded", "or")):
                continue
            for targets in itertools.product(TARGETS[no], repeat=nb):
                for kinds in itertools.product(KINDS, repeat=no):
                    out.append((usages, targets, kinds))
    return out


def plan(tier: str, seed: int):
    n = len(skeletons(tier))
    parts = 32
    return [(p, parts) for p in range(min(parts, n))] + [("forward", p) for p in range(FORWARD_PARTS)]


def build(usages, targets, kinds):
    def inp(name):
        return fl.InputVariable(name, minimum=0.0, maximum=1.0, terms=[fl.Triangle("t", 0.0, 0.5, 1.0)])

    outs = []
    for k, kind in enumerate(kinds):
        term = fl.Triangle("x", 0.0, 0.5, 1.0) if kind == "integral" else fl.Constant("x", 0.5)
        outs.append(fl.OutputVariable(f"o{k + 1}", minimum=0.0, maximum=1.0, terms=[term]))
    blocks = []
    for k, (usage, target) in enumerate(zip(usages, targets)):
        rules = [fl.Rule.create(f"if {a} then {consequent(target)}") for a in antecedents(usage)]
        if usage.endswith("-disabled"):
            rules[0].enabled = False  # a disabled rule is still activated (only its trigger is skipped)
        blocks.append(fl.RuleBlock(f"rb{k + 1}", activation=fl.General(), rules=rules))
    engine = fl.Engine("e", input_variables=[inp("a"), inp("b")], output_variables=outs, rule_blocks=blocks)
    for usage, rb in zip(usages, engine.rule_blocks):
        if usage.endswith("-unloaded"):
            rb.rules[-1].unload()
    return engine


def needed(usages, targets, kinds, removed):
    """Reference: list of (keyword, owner name) that the loaded rules and outputs need and that are missing."""
    need = []
    for k, kind in enumerate(kinds):
        o = f"o{k + 1}"
        has_defuzz = (o, "defuzzifier") not in removed
        if not has_defuzz:
            need.append(("defuzzifier", o))
        if kind == "integral" and has_defuzz and (o, "aggregation") in removed:
            need.append(("aggregation", o))
    for k, (usage, target) in enumerate(zip(usages, targets)):
        rb = f"rb{k + 1}"
        if usage in ("and", "both", "mixed", "mixed-right", "and-disabled") and (rb, "conjunction") in removed:
            need.append(("conjunction", rb))
        if usage in ("or", "both", "mixed", "mixed-right", "or-disabled") and (rb, "disjunction") in removed:
            need.append(("disjunction", rb))
        into_integral = any(kinds[int(o[1]) - 1] == "integral" and (o, "defuzzifier") not in removed for o in target.split("+"))
        if into_integral and (rb, "implication") in removed:
            need.append(("implication", rb))
    return need


def make_activation(spec):
    return getattr(fl, spec[0])(*spec[1:])


def configure(engine, kinds, removed) -> None:
    for k, ov in enumerate(engine.output_variables):
        integral = kinds[k] == "integral"
        ov.aggregation = None if (ov.name, "aggregation") in removed else fl.Maximum()
        ov.defuzzifier = None if (ov.name, "defuzzifier") in removed else (fl.Centroid(20) if integral else fl.WeightedAverage())
    for rb in engine.rule_blocks:
        rb.conjunction = None if (rb.name, "conjunction") in removed else fl.Minimum()
        rb.disjunction = None if (rb.name, "disjunction") in removed else fl.Maximum()
        rb.implication = None if (rb.name, "implication") in removed else fl.Minimum()


def run_case(acc: Acc, engine, usages, targets, kinds, removed, activation=("General",)) -> None:
    configure(engine, kinds, removed)
    for rb in engine.rule_blocks:
        rb.activation = make_activation(activation)
    case = {"usages": list(usages), "targets": list(targets), "kinds": list(kinds), "removed": sorted(map(list, removed)),
            "activation": list(activation)}
    errors: list[str] = []
    ready = engine.is_ready(errors)
    acc.transitions += 1
    errors2: list[str] = []
    if engine.is_ready(errors2) != ready or errors2 != errors:
        acc.violate("not-repeatable", {}, case, errors, errors2, "is_ready() gives a different answer the second time")
    need = needed(usages, targets, kinds, removed)
    acc.case((usages, targets, kinds, tuple(sorted(removed)), activation), nontrivial=bool(removed))
    if ready != (not errors):
        acc.violate("ready-vs-errors", {}, case, not errors, ready, "is_ready() disagrees with its own error list")
    # (<=) every needed-and-missing component is reported
    for keyword, owner in need:
        if not any(keyword in e and f"'{owner}'" in e for e in errors):
            acc.violate("missing-not-reported", {"component": keyword}, case, f"error naming {keyword} of {owner}", errors,
                        f"{keyword} of {owner} is needed and missing but not reported (ready={ready})")
    # (=>) ready implies processable
    raised = None
    for row in ROWS:
        for ov in engine.output_variables:
            ov.clear()  # (not Engine.restart: that would reload the rule that is deliberately left unloaded)
        engine.input_variables[0].value, engine.input_variables[1].value = row
        try:
            engine.process()
            acc.transitions += 1
        except Exception as ex:  # noqa: BLE001
            raised = ex
            break
    acc.traces += 1
    if ready:
        acc.cls("ready")
        if raised is not None:
            missing = "disjunction" if "disjunction" in str(raised) else ("conjunction" if "conjunction" in str(raised) else "other")
            acc.violate("ready-but-raises", {"missing": missing}, case, "no exception", f"{type(raised).__name__}: {raised}",
                        f"is_ready() is True but process() raises {type(raised).__name__}: {str(raised)[:100]}")
    else:
        acc.cls("not_ready_raises" if raised is not None else "not_ready_but_processes")
    if not need and raised is not None:
        acc.violate("reference-incomplete", {}, case, "no exception", repr(raised), "process raises although nothing needed is missing")


# ---------------------------------------------------------------------------------------------------------------------
# forward direction on complete engines of other shapes: rule chaining (an output variable in an antecedent, in every
# rule order, also a term nobody has concluded yet), operator / defuzzifier instances shared between components,
# Takagi-Sugeno / Tsukamoto / hybrid engines; x lock-previous / default settings x every way of giving the inputs
# ---------------------------------------------------------------------------------------------------------------------
FORWARD_LOCKS = [(False, float("nan")), (True, float("nan")), (False, 0.5), (True, 0.5)]
FORWARD_MODES = ["float", "0d-array", "one-element-array", "input_values-row", "float/fll-import"]  # last: the engine re-imported from its FLL text
FORWARD_ROWS = [(0.25, 0.625), (0.0, 1.0), (1.5, 0.5)]
FORWARD_PARTS = 8


def forward_recipes(tier: str):
    from ..gen import recipes as R
    from ..ref.rulegrammar import prop as P
    from . import c01, c13
    out = [r for r, _ in c01.space_d(tier)] + [r for r, _ in c01.space_g("quick")] + [r for r in c13.engine_recipes() if len(r["inputs"]) == 2]
    out += [r for k, (r, _) in enumerate(c01.space_h("quick")) if k % 5 == 0]  # operators installed through Engine.configure
    # a chained rule reading a term that no rule concludes, under every activation method
    for act in ACTIVATIONS:
        for kind in KINDS:
            terms = None if kind == "integral" else [R.shape("Constant", "lo", [0.25]), R.shape("Constant", "hi", [0.75])]
            df = ("Centroid", 16) if kind == "integral" else ("WeightedAverage", "Automatic")
            o1 = R.out_var("o1", terms=terms, aggregation="Maximum" if kind == "integral" else None, defuzzifier=df)
            o2 = R.out_var("o2", terms=terms, aggregation="Maximum" if kind == "integral" else None, defuzzifier=df)
            rules = [R.rule(P("o1", (), "hi"), [("o2", (), "hi")]), R.rule(P("a", (), "lo"), [("o1", (), "lo")]),
                     R.rule(("or", P("a", (), "hi"), P("o1", ("not",), "lo")), [("o2", (), "lo")])]
            out.append(R.engine(f"chain-{kind}-{act[0]}", [R.in_var("a"), R.in_var("b")], [o1, o2],
                                [R.block("rb", rules, "Minimum", "Maximum", "Minimum" if kind == "integral" else None, activation=act)]))
    return out


def run_forward(acc: Acc, recipe: dict, lock, mode: str) -> None:
    import numpy as np
    from ..gen import recipes as R
    lp, default = lock
    r = R.clone(recipe)
    for o in r["outputs"]:
        o["lock_previous"], o["default"] = lp, default
    engine = R.build(r)
    if mode.endswith("/fll-import"):  # activation methods, operators and defuzzifiers configured from text
        try:
            engine = fl.FllImporter().from_string(fl.FllExporter().to_string(engine))
        except (ValueError, SyntaxError, KeyError):
            acc.cls("forward_fll_not_importable")  # (a harness engine that uses an S-norm as implication; round trips are C14's subject)
            return
    case = {"forward": True, "recipe": recipe, "lock": [lp, default], "mode": mode}
    errors: list[str] = []
    ready = engine.is_ready(errors)
    acc.transitions += 1
    acc.case((recipe["name"], acc.evals, lp, str(default), mode), nontrivial=True)
    if not ready:
        acc.cls("forward_not_ready")
        return
    acc.cls("forward_ready")
    for row in FORWARD_ROWS:
        if mode == "input_values-row":
            engine.input_values = np.array([list(row)])
        else:
            for iv, x in zip(engine.input_variables, row):
                iv.value = {"float": float(x), "0d-array": np.array(x), "one-element-array": np.array([x])}[mode.split("/")[0]]
        try:
            engine.process()
            acc.transitions += 1
        except Exception as ex:  # noqa: BLE001
            acc.violate("ready-but-raises", {"missing": "other", "activation": recipe["blocks"][0]["activation"][0], "mode": mode,
                                             "type": type(ex).__name__}, {**case, "row": list(row)}, "no exception", f"{type(ex).__name__}: {ex}",
                        f"[{recipe['name']}] is_ready() is True but process() raises {type(ex).__name__}: {str(ex)[:100]} "
                        f"(inputs {row} given as {mode}, lock-previous={lp}, default={default})")
            return
    acc.traces += 1


def run_failed_loads(acc: Acc) -> None:
    """A rule whose load failed part-way (valid first conclusion, invalid second / missing term) next to valid rules:
    whatever is_ready() answers, ready must imply processable - under every activation method."""
    import numpy as np
    from ..gen import recipes as R
    from ..ref.rulegrammar import prop as P
    bad_texts = ["if a is lo then o is lo and o is sideways", "if a is lo then o is lo and ghost is lo", "if a is lo then o is lo and o is",
                 "if a is lo and b is then o is lo", "if a is lo then o is lo and o", "if a is then o is lo", "if a is very then o is lo",
                 "if ( a is ) then o is lo"]
    for act in ACTIVATIONS:
        for bad in bad_texts:
            recipe = R.engine("failed-load", [R.in_var("a"), R.in_var("b")], [R.out_var("o")],
                              [R.block("rb", [R.rule(P("a", (), "hi"), [("o", (), "hi")]), R.rule(P("b", (), "lo"), [("o", (), "lo")])],
                                       "Minimum", "Maximum", "Minimum", activation=act)])
            engine = R.build(recipe)
            engine.rule_blocks[0].rules.insert(1, fl.Rule.create(bad))
            try:
                engine.rule_blocks[0].load_rules(engine)
            except RuntimeError:
                pass
            case = {"forward": "failed-load", "text": bad, "activation": list(act)}
            acc.case(("failed-load", bad, act), nontrivial=True)
            ready = engine.is_ready([])
            acc.transitions += 1
            acc.cls("failed_load_ready" if ready else "failed_load_not_ready")
            if not ready:
                continue
            for row in FORWARD_ROWS:
                for iv, x in zip(engine.input_variables, row):
                    iv.value = x
                try:
                    engine.process()
                except Exception as ex:  # noqa: BLE001
                    acc.violate("ready-but-raises", {"missing": "other", "activation": act[0], "mode": "failed-load", "type": type(ex).__name__},
                                {**case, "row": list(row)}, "no exception", f"{type(ex).__name__}: {ex}",
                                f"a rule whose load failed ({bad!r}) is in the block, is_ready() is True, process() raises {type(ex).__name__}: {str(ex)[:100]}")
                    break


def run_shard(tier: str, seed: int, shard):
    part, parts = shard
    acc = Acc(ID)
    if part == "forward" and parts == 0:
        acc.guard({"forward": "failed-load"}, run_failed_loads, acc)
    if part == "forward":
        for idx, recipe in enumerate(forward_recipes(tier)):
            if idx % FORWARD_PARTS != parts:
                continue
            acc.states += 1
            for lock in FORWARD_LOCKS:
                for mode in FORWARD_MODES:
                    acc.guard({"forward": True, "recipe": recipe, "lock": list(lock), "mode": mode}, run_forward, acc, recipe, lock, mode)
        n = acc.states
        res = acc.result()
        return res
    for idx, (usages, targets, kinds) in enumerate(skeletons(tier)):
        if idx % parts != part:
            continue
        engine = build(usages, targets, kinds)
        comps = [(f"rb{k + 1}", c) for k in range(len(usages)) for c in ("conjunction", "disjunction", "implication")]
        comps += [(f"o{k + 1}", c) for k in range(len(kinds)) for c in ("aggregation", "defuzzifier")]
        acc.states += 1
        acts = ACTIVATIONS if len(usages) == 1 else [ACTIVATIONS[idx % len(ACTIVATIONS)]]
        for act in acts:
            for r in range(len(comps) + 1):
                for removed in itertools.combinations(comps, r):
                    rem = frozenset(removed)
                    case = {"usages": list(usages), "targets": list(targets), "kinds": list(kinds), "removed": sorted(map(list, rem)),
                            "activation": list(act)}
                    acc.guard(case, run_case, acc, engine, usages, targets, kinds, rem, act)
        if idx == 5:
            acc.sample({"usages": list(usages), "targets": list(targets), "kinds": list(kinds),
                        "removed": [["rb1", "disjunction"]], "rules": [str(r.text) for r in engine.rule_blocks[0].rules]}, 1)
    acc.states = acc.evals
    return acc.result()


def summarize(tier: str, seed: int, merged: dict) -> dict:
    c = merged["classes"]
    vac = [f"outcome class {k} is empty" for k in ("ready", "not_ready_raises", "not_ready_but_processes") if not c.get(k)]
    return {
        "rule": (
            f"{len(skeletons(tier))} skeletons (blocks x outputs in {{1,2}}^2; connective usage per block in {USAGES} - `mixed` = "
            "both connectives in one antecedent (`mixed-right`: the `and` inside the right operand of the `or`), `*-disabled` = the "
            "connective only occurs in a disabled rule, `none-unloaded` = an extra unloaded rule; all 7 activation methods "
            "for 1-block skeletons, one rotating method otherwise; "
            "conclusion targets o1 / o2 / both; output kind integral / weighted) x every subset of the removable "
            "components (3 per block + 2 per output, up to 2^10); states = engine configurations, transitions = "
            "is_ready + process calls, traces = configurations judged against the reference needs; non-trivial = at "
            "least one component removed. Forward direction additionally on complete engines of other shapes (rule chaining in "
            "every rule order incl. a term nobody concluded, shared operator/defuzzifier instances, Takagi-Sugeno / Tsukamoto / hybrid) x "
            f"(lock-previous, default) in {[(a, str(b)) for a, b in FORWARD_LOCKS]} x inputs given as {FORWARD_MODES} x rows {FORWARD_ROWS}"
        ),
        "exhaustive": True,
        "vacuity_errors": vac,
        "assumptions": ["rules use whitespace-separated tokens; every block has the General activation method"],
    }


def replay(case: dict):
    acc = Acc(ID)
    if case.get("forward") == "failed-load":
        acc.guard(case, run_failed_loads, acc)
        return acc.violations
    if case.get("forward"):
        from .c01 import fix_recipe
        lock = (case["lock"][0], float(case["lock"][1]))
        acc.guard(case, run_forward, acc, fix_recipe(case["recipe"]), lock, case["mode"])
        return acc.violations
    usages, targets, kinds = tuple(case["usages"]), tuple(case["targets"]), tuple(case["kinds"])
    engine = build(usages, targets, kinds)
    rem = frozenset(tuple(x) for x in case["removed"])
    acc.guard(case, run_case, acc, engine, usages, targets, kinds, rem, tuple(case.get("activation", ["General"])))
    return acc.violations

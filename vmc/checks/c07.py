"""C07 - each conclusion of a triggered rule contributes exactly its own activation.

K3 grammar-bounded enumeration: ALL consequents with 1..3 conclusions over an alphabet of
(output variable, term, hedge chain) triples - hence every permutation of every multiset of conclusions - driven
through Rule.create + Rule.trigger (degrees incl. NaN, +-inf, batches; rule enabled/disabled) and through
RuleBlock.activate (General) with and without `with w`.
Oracle: per variable, in order, one (term, implication, f_k(degree)) per conclusion on that variable with f_k the
conclusion's own hedges (vmc.ref.hedges) and the NaN/inf replacement; nothing for the disabled variable / rule.
"""

from __future__ import annotations

import itertools
import math

import numpy as np

from ..explore import Acc
from ..lib import fl
from ..oracle import close
from ..ref import hedges as H
from ..ref import rulegrammar as RG

ID = "C07"
LEVEL = "model_checking"

NAN, INF = float("nan"), float("inf")
ALL_HEDGES = list(H.HEDGES)
TARGETS = [("o1", "x"), ("o1", "y"), ("o2", "x"), ("o3", "x")]  # o3 is disabled
SCALAR_DEGREES = [0.0, 0.25, 0.5, 1.0, NAN, INF, -INF]
BATCH = [0.25, NAN, 1.0]


def chains(tier: str):
    if tier == "thorough":
        return [()] + [(h,) for h in ALL_HEDGES] + list(itertools.product(ALL_HEDGES, repeat=2))
    return [(), *[(h,) for h in ALL_HEDGES], ("very", "not"), ("not", "very"), ("somewhat", "any"),
            ("any", "very"), ("extremely", "seldom")]


def alphabet(tier: str):
    return [(v, hs, t) for (v, t) in TARGETS for hs in chains(tier)]


def plan(tier: str, seed: int):
    return list(range(len(alphabet(tier))))


IMPLICATION = "AlgebraicProduct"  # what every harness engine is given as its implication operator


def build_engine(configured: bool = False):
    """configured=True: the operators are installed afterwards through Engine.configure (by name)."""
    def out(name, enabled=True):
        return fl.OutputVariable(
            name, enabled=enabled, minimum=0.0, maximum=1.0,
            terms=[fl.Triangle("x", 0.0, 0.25, 0.5), fl.Triangle("y", 0.5, 0.75, 1.0)],
        )

    if configured:
        block = fl.RuleBlock("rb")
    else:
        block = fl.RuleBlock("rb", conjunction=fl.Minimum(), disjunction=fl.Maximum(), implication=fl.AlgebraicProduct(),
                             activation=fl.General())
    engine = fl.Engine(
        "e",
        input_variables=[fl.InputVariable("i", minimum=0.0, maximum=1.0, terms=[fl.Ramp("a", 0.0, 1.0)])],
        output_variables=[out("o1"), out("o2"), out("o3", enabled=False)],
        rule_blocks=[block],
    )
    if configured:
        engine.configure(conjunction="Minimum", disjunction="Maximum", implication=IMPLICATION, aggregation="Maximum",
                         defuzzifier="Centroid", activation="General")
    return engine, block


def expected(conclusions, degree: float, rule_enabled: bool):
    """Reference: {var: [(term, stored degree)]} for one scalar degree."""
    exp = {"o1": [], "o2": [], "o3": []}
    if not rule_enabled:
        return exp
    for var, hedges, term in conclusions:
        if var == "o3":
            continue
        exp[var].append((term, H.store_degree(H.apply_chain(hedges, degree))))
    return exp


def expected_leak(conclusions, degree: float, rule_enabled: bool):
    """Model of the known defect (known_findings.json C07-hedge-leak): the degree is threaded through the loop, so
    the hedges of every earlier conclusion on an enabled variable also modify all later conclusions."""
    exp = {"o1": [], "o2": [], "o3": []}
    if not rule_enabled:
        return exp
    running = degree
    for var, hedges, term in conclusions:
        if var == "o3":
            continue
        running = H.apply_chain(hedges, running)
        exp[var].append((term, H.store_degree(running)))
    return exp


def observe(engine):
    obs = {}
    for ov in engine.output_variables:
        obs[ov.name] = [(a.term.name, a.degree, a.implication) for a in ov.fuzzy.terms]
    return obs


def deg_ok(actual, want: float) -> bool:
    a = float(actual)
    return close(a, want, 1e-15, 4e-16)


def compare(acc, case, obs, exps, implication, n_rows, leaks=None):
    """exps: list (one per row of the batch) of expected dicts; leaks: the same under the known-defect model."""
    for var in ("o1", "o2", "o3"):
        got = obs[var]
        want0 = exps[0][var]
        if len(got) != len(want0) or [g[0] for g in got] != [w[0] for w in want0]:
            acc.violate("terms", {"variable": "disabled" if var == "o3" else "enabled"}, case,
                        {var: [w[0] for w in want0]}, {var: [g[0] for g in got]},
                        f"fuzzy output of {var} has terms {[g[0] for g in got]}, expected {[w[0] for w in want0]}")
            continue
        for k, (tname, degree, impl) in enumerate(got):
            if impl is not implication or type(impl).__name__ != IMPLICATION:
                acc.violate("implication", {}, case, IMPLICATION, repr(impl), f"{var}[{k}] carries the wrong implication")
            d = np.atleast_1d(np.asarray(degree, dtype=float))
            if d.shape != (n_rows,):
                acc.violate("degree-shape", {}, case, n_rows, list(d.shape), f"{var}[{k}] degree has shape {d.shape}")
                continue
            wants = [e[var][k][1] for e in exps]
            if not all(deg_ok(d[r], wants[r]) for r in range(n_rows)):
                cause = "other"
                if leaks is not None and all(deg_ok(d[r], leaks[r][var][k][1]) for r in range(n_rows)):
                    cause = "hedge-of-earlier-conclusion-applied"
                acc.violate("degree", {"cause": cause}, case,
                            {var: wants}, {var: d.tolist()},
                            f"{var} activation #{k} ({tname}) has degree {d.tolist()}, expected {wants}")


REUSED: dict = {}


def run_rule(acc: Acc, engine, block, conclusions, tier: str, via_block: bool) -> None:
    text = RG.rule_text(RG.prop("i", (), "a"), conclusions)
    case0 = {"rule": text, "conclusions": [list(c[:1]) + [list(c[1])] + [c[2]] for c in conclusions]}
    rule = fl.Rule.create(text, engine)
    rule.load(engine)  # loading a loaded rule again must give the same conclusions, not accumulate them
    if not rule.is_loaded():
        acc.violate("load", {}, case0, "loaded", "not loaded", f"valid rule not loaded: {text}")
        return
    impl = block.implication
    nontrivial = len(conclusions) > 1 and any(c[1] for c in conclusions)
    # --- driver 1: Rule.trigger with a preset activation degree -------------------------------------------------
    for d in SCALAR_DEGREES:
        for ov in engine.output_variables:
            ov.fuzzy.clear()
        rule.enabled = True
        rule.activation_degree = fl.scalar(d)
        rule.trigger(impl)
        acc.transitions += 1
        acc.case((text, d), nontrivial=nontrivial and 0 < d < 1)
        case = {**case0, "driver": "trigger", "degree": d, "enabled": True}
        compare(acc, case, observe(engine), [expected(conclusions, d, True)], impl, 1,
                [expected_leak(conclusions, d, True)])
        if bool(rule.triggered) != (d > 0.0):
            acc.violate("triggered", {}, case, d > 0.0, bool(rule.triggered), "triggered flag != (degree > 0)")
    # batch degree
    for ov in engine.output_variables:
        ov.fuzzy.clear()
    rule.activation_degree = fl.scalar(BATCH)
    rule.trigger(impl)
    acc.transitions += 1
    acc.case((text, "batch"), nontrivial=nontrivial)
    compare(acc, {**case0, "driver": "trigger", "degree": BATCH, "enabled": True}, observe(engine),
            [expected(conclusions, d, True) for d in BATCH], impl, len(BATCH),
            [expected_leak(conclusions, d, True) for d in BATCH])
    # disabled rule
    for ov in engine.output_variables:
        ov.fuzzy.clear()
    rule.enabled = False
    rule.activation_degree = fl.scalar(0.5)
    rule.trigger(impl)
    acc.transitions += 1
    acc.case((text, "disabled"), nontrivial=False)
    case = {**case0, "driver": "trigger", "degree": 0.5, "enabled": False}
    compare(acc, case, observe(engine), [expected(conclusions, 0.5, False)], impl, 1)
    if bool(rule.triggered):
        acc.violate("triggered", {}, case, False, True, "disabled rule reports triggered")
    acc.traces += 1
    if not via_block:
        return
    # --- driver 2: RuleBlock.activate (General) with a second rule and optional weight --------------------------
    for weight in (None, "0.500", "0.000"):
        wtext = RG.rule_text(RG.prop("i", (), "a"), conclusions, weight)
        r1 = fl.Rule.create(wtext, engine)
        r2 = fl.Rule.create("if i is a then o1 is very y and o2 is y", engine)
        block.rules = [r1, r2]
        second = [("o1", ("very",), "y"), ("o2", (), "y")]
        for x in (0.25, 0.5, 1.0, NAN, [0.5, 1.0]):
            rows = x if isinstance(x, list) else [x]
            engine.input_variables[0].value = fl.scalar(x)
            for ov in engine.output_variables:
                ov.fuzzy.clear()
            block.activate()
            acc.transitions += 1
            acc.case((wtext, str(x)), nontrivial=nontrivial)
            w = 1.0 if weight is None else float(weight)
            exps, leaks = [], []
            for xv in rows:
                d1 = w * xv  # Ramp(0,1): membership == x on [0,1]; NaN stays NaN
                for fn, dst in ((expected, exps), (expected_leak, leaks)):
                    e1 = fn(conclusions, d1, True)
                    e2 = fn(second, xv, True)
                    dst.append({v: e1[v] + e2[v] for v in e1})
            compare(acc, {**case0, "driver": "activate", "rule": wtext, "input": x}, observe(engine), exps, impl,
                    len(rows), leaks)
        acc.traces += 1
    # --- driver 3: every activation method, one selected rule: the term carries the block's IMPLICATION operator ------
    # (the rule object is long-lived: it held `... with 0.250` before and is re-parsed in place with this unweighted text)
    r1 = REUSED.setdefault(id(engine), fl.Rule.create("if i is a then o1 is x with 0.250", engine))
    r1.parse(text)
    r1.load(engine)
    block.rules = [r1]
    engine.input_variables[0].value = fl.scalar(0.5)
    methods = [fl.First(1, 0.0), fl.Last(1, 0.0), fl.Highest(1), fl.Lowest(1), fl.Threshold(">", 0.0), fl.Proportional(), fl.General()]
    for method in methods:
        block.activation = method
        for ov in engine.output_variables:
            ov.fuzzy.clear()
        block.activate()
        acc.transitions += 1
        d1 = 1.0 if isinstance(method, fl.Proportional) else 0.5  # Proportional normalises the only degree to 1
        acc.case((text, type(method).__name__), nontrivial=nontrivial)
        compare(acc, {**case0, "driver": "activate-method", "method": type(method).__name__, "input": 0.5}, observe(engine),
                [expected(conclusions, d1, True)], impl, 1, [expected_leak(conclusions, d1, True)])
    r1.parse("if i is a then o1 is x with 0.250")
    r1.load(engine)
    # --- driver 5: a copy of the engine (made while the block holds the rule) adds to ITS OWN outputs only ----------------
    block.activation = fl.General()
    block.rules = [fl.Rule.create(text, engine)]
    twin = engine.copy()
    block.rules[0].unload()  # the copy must not depend on the original's rule
    for e in (engine, twin):
        for ov in e.output_variables:
            ov.fuzzy.clear()
    twin.input_variables[0].value = fl.scalar(0.5)
    engine.input_variables[0].value = fl.scalar(1.0)
    twin.rule_blocks[0].activate()
    acc.transitions += 1
    compare(acc, {**case0, "driver": "copy", "input": 0.5}, observe(twin), [expected(conclusions, 0.5, True)], twin.rule_blocks[0].implication, 1,
            [expected_leak(conclusions, 0.5, True)])
    leaked = {v: [g[0] for g in got] for v, got in observe(engine).items() if got}
    if leaked:
        acc.violate("terms", {"variable": "original-of-copy"}, {**case0, "driver": "copy", "input": 0.5}, {}, leaked,
                    f"activating the copy's rule block added terms {leaked} to the ORIGINAL engine's fuzzy outputs")
    engine.input_variables[0].value = fl.scalar(0.5)
    # --- driver 6: an engine whose components are given to the constructor as one-shot iterables ---------------------------
    if via_block:
        e6, _ = build_engine()
        e6 = fl.Engine("e6", input_variables=iter(e6.input_variables), output_variables=iter(e6.output_variables),
                       rule_blocks=iter([fl.RuleBlock("rb", conjunction=fl.Minimum(), disjunction=fl.Maximum(), implication=fl.AlgebraicProduct(),
                                                       activation=fl.General(), rules=iter([fl.Rule.create(text)]))]))
        e6.input_variables[0].value = fl.scalar(0.5)
        e6.rule_blocks[0].activate()
        acc.transitions += 1
        compare(acc, {**case0, "driver": "iterables", "input": 0.5}, observe(e6), [expected(conclusions, 0.5, True)], e6.rule_blocks[0].implication, 1,
                [expected_leak(conclusions, 0.5, True)])
    # --- driver 4: a rule that was disabled while the block was loaded and is enabled afterwards contributes normally ----
    late = fl.Rule.create(text)
    late.enabled = False
    block.rules = [late]
    block.load_rules(engine)
    for ov in engine.output_variables:
        ov.fuzzy.clear()
    block.activate()
    compare(acc, {**case0, "driver": "late-enabled", "enabled": False, "input": 0.5}, observe(engine), [expected(conclusions, 0.5, False)], impl, 1)
    late.enabled = True
    for ov in engine.output_variables:
        ov.fuzzy.clear()
    block.activate()
    acc.transitions += 2
    compare(acc, {**case0, "driver": "late-enabled", "enabled": True, "input": 0.5}, observe(engine), [expected(conclusions, 0.5, True)], impl, 1,
            [expected_leak(conclusions, 0.5, True)])
    block.rules = []


def run_shard(tier: str, seed: int, shard: int):
    acc = Acc(ID)
    engine, block = build_engine(configured=(shard % 2 == 1))  # every other shard: operators installed through Engine.configure
    A = alphabet(tier)
    first = A[shard]
    # 1, 2 and 3 conclusions whose first conclusion is `first`
    def go(conclusions, via_block):
        case = {"conclusions": [[c[0], list(c[1]), c[2]] for c in conclusions]}
        if not acc.guard(case, run_rule, acc, engine, block, conclusions, tier, via_block):
            block.rules = []

    go([first], True)
    for second in A:
        go([first, second], True)
    for second in A:
        for third in A:
            go([first, second, third], False)
    acc.states = acc.evals
    if shard == 1:
        acc.sample({"rule": RG.rule_text(RG.prop("i", (), "a"), [A[1], A[2], A[0]]), "degree": 0.5,
                    "expected": expected([A[1], A[2], A[0]], 0.5, True)})
    return acc.result()


def summarize(tier: str, seed: int, merged: dict) -> dict:
    A = alphabet(tier)
    n = len(A)
    return {
        "rule": (
            f"all consequents of 1..3 conclusions over {n} (variable, term, hedge-chain) triples "
            f"({len(chains(tier))} hedge chains of length <= 2 over 6 hedges; o3 disabled): {n}+{n}^2+{n}^3 rules, "
            f"each triggered with degrees {['0', '0.25', '0.5', '1', 'nan', 'inf', '-inf']}, a batch, and disabled; "
            "1- and 2-conclusion rules also through RuleBlock.activate with/without `with 0.5` next to a second rule, under each of the "
            "7 activation methods (conjunction != implication; the rule object re-parsed in place after holding a weighted rule), on a copy of "
            "the engine (the original's outputs stay empty), and loaded while disabled then enabled; every other shard builds its engine "
            "through Engine.configure. "
            "states = (rule, degree) configurations executed, transitions = trigger/activate calls, traces = reference "
            "runs compared; non-trivial = >= 2 conclusions, at least one hedge, degree strictly inside (0,1) or a batch"
        ),
        "exhaustive": True,
        "vacuity_errors": [] if merged["evals"] > n**3 else ["enumeration incomplete"],
        "assumptions": ["hedge formulas as in vmc/ref/hedges.py (checked against the library by C05)"],
        "coverage": {"alphabet": n, "rules": n + n * n + n**3},
    }


def replay(case: dict):
    acc = Acc(ID)
    engine, block = build_engine()
    conclusions = [(c[0], tuple(c[1]), c[2]) for c in case["conclusions"]]
    acc.guard(case, run_rule, acc, engine, block, conclusions, "quick", True)
    return acc.violations

"""C03 - membership functions match their documented definitions.

K1: every valid parameter tuple of each of the 20 shape terms (+ Constant) over a dyadic + decimal + seed-phased
position alphabet x 4 heights x the boundary set of the break points, a lattice over the support, +-inf and NaN;
evaluated through the Python-float, 0-d, 1-D and 2-D entry points of Term.membership.
Oracle: vmc.ref.terms (docstring equations) with the comparison policy of DESIGN 3.2, plus the intrinsic clauses
(range, NaN iff x is NaN, monotonicity of the terms that declare it, array == elementwise).
"""

from __future__ import annotations

import math

import numpy as np

from ..explore import Acc
from ..gen import termspace as G
from ..lib import fl
from ..oracle import close, same
from ..ref import terms as R

ID = "C03"
LEVEL = "exploration"
CLASSES = G.SHAPES + ["Constant"]
CHUNKS = 4


def plan(tier: str, seed: int):
    return [(cls, c) for cls in CLASSES for c in range(CHUNKS)]


def where_of(cls: str, p, x: float) -> str:
    """Coarse location of x used in violation signatures (so that known findings stay specific)."""
    if x != x:
        return "nan"
    if math.isinf(x):
        return "inf"
    bps = G.breakpoints(cls, p)
    if cls in ("Arc",) and x == p[1]:
        return "end"
    if cls in ("Arc",) and x == p[0]:
        return "start"
    if cls == "SemiEllipse" and x in (p[0], p[1]):
        return "endpoint"
    if any(x == b for b in bps):
        return "breakpoint"
    return "interior"


def check_term(acc: Acc, cls: str, p, h: float, xs: list[float]) -> None:
    term = G.make_term(cls, "t", p, h)
    case0 = {"term": cls, "params": p, "height": h}
    mono = cls in R.MONOTONIC
    if bool(term.is_monotonic()) != mono:
        acc.violate("is_monotonic", {"term": cls}, case0, mono, bool(term.is_monotonic()), f"{cls}.is_monotonic()")
    if cls == "Discrete":
        # a repeated x-coordinate is a vertical edge: the value exactly AT it is not specified (numpy.interp does not
        # document ties); everything around it, including the floating-point neighbours, is
        abscissae = list(p[0::2])
        xs = [x for x in xs if abscissae.count(x) < 2]
    pts = xs + [math.nan]
    arr = np.array(pts)
    keep = arr.copy()
    y1 = term.membership(arr)
    y2 = term.membership(arr.reshape(-1, 1))
    y1_again = term.membership(arr)
    if not np.array_equal(arr, keep, equal_nan=True):
        acc.violate("input-array-modified", {"term": cls}, case0, "x unchanged", "x overwritten", f"{cls}.membership modifies the caller's array")
        return
    if not np.array_equal(np.asarray(y1), np.asarray(y1_again), equal_nan=True):
        acc.violate("not-repeatable", {"term": cls}, case0, "same values", "differ", f"{cls}.membership gives different values when called twice")
        return
    if np.shape(y1) != arr.shape or np.shape(y2) != (len(pts), 1):
        acc.violate("array-shape", {"term": cls}, case0, [arr.shape], [np.shape(y1), np.shape(y2)],
                    f"{cls}: array evaluation does not preserve the shape")
        return
    # construction paths: a long-lived term of another height re-configured with the shape parameters only has height 1
    # (the documented default); Discrete pairs given in reverse order and sorted are the same term
    if cls != "Constant":
        fresh = G.make_term(cls, "t", p, 1.0)
        again = G.make_term(cls, "t", p, 0.5 if h == 1.0 else h)
        again.configure(" ".join(repr(float(v)) for v in p))
        want_f = np.asarray(fresh.membership(arr), dtype=float)
        got_f = np.asarray(again.membership(arr), dtype=float)
        if not np.array_equal(want_f, got_f, equal_nan=True):
            k = int(np.argmax(~((want_f == got_f) | (np.isnan(want_f) & np.isnan(got_f)))))
            acc.violate("construction-path", {"term": cls, "path": "configure-without-height"}, {**case0, "x": float(arr[k])}, float(want_f[k]), float(got_f[k]),
                        f"{cls}{p}: a term of height {again.height if again.height != 1.0 else 'not 1'} re-configured without a height gives {float(got_f[k])!r} at "
                        f"{float(arr[k])!r}; the documented default height 1 gives {float(want_f[k])!r}")
    if cls == "Discrete" and len(set(p[0::2])) == len(p[0::2]):
        rev = fl.Discrete("t", fl.Discrete.to_xy(p[0::2][::-1], p[1::2][::-1]), h)
        rev.sort()
        got_r = np.asarray(rev.membership(arr), dtype=float)
        if not np.array_equal(np.asarray(y1, dtype=float), got_r, equal_nan=True):
            k = int(np.argmax(~((np.asarray(y1) == got_r) | (np.isnan(np.asarray(y1, dtype=float)) & np.isnan(got_r)))))
            acc.violate("construction-path", {"term": cls, "path": "sort"}, {**case0, "x": float(arr[k])}, float(np.asarray(y1)[k]), float(got_r[k]),
                        f"Discrete{p}: the pairs given in reverse order and sorted give {float(got_r[k])!r} at {float(arr[k])!r}, the ordered pairs {float(np.asarray(y1)[k])!r}")
    # single / half precision arrays are the same points as their double-precision values (the library converts first)
    for dtype in (np.float32, np.float16):
        with np.errstate(over="ignore"):
            narrow = arr.astype(dtype)
        wide = narrow.astype(np.float64)
        yn, yw = np.asarray(term.membership(narrow), dtype=float), np.asarray(term.membership(wide), dtype=float)
        if yn.shape != yw.shape or not np.allclose(yn, yw, rtol=0, atol=1e-12, equal_nan=True):
            k = int(np.argmax(~np.isclose(yn, yw, rtol=0, atol=1e-12, equal_nan=True))) if yn.shape == yw.shape else 0
            acc.violate("array-kind", {"term": cls, "operand": np.dtype(dtype).name}, {**case0, "x": float(wide[k])}, float(yw[k]),
                        float(yn[k]) if yn.shape == yw.shape else list(yn.shape),
                        f"{cls}{p}: membership of a {np.dtype(dtype).name} array at {float(wide[k])!r} is {float(yn[k]) if yn.shape == yw.shape else yn.shape}, "
                        f"of the same value in double precision {float(yw[k])!r}")
            break
    # integer-typed x (Python int, integer array) is the same point as the float
    for xi in (-1, 0, 1, 2):
        vi, vf = term.membership(xi), term.membership(float(xi))
        ai = term.membership(np.array([xi, xi]))
        acc.case((cls, tuple(p), h, "int", xi), nontrivial=False)
        if not (same(float(vi), float(vf)) and same(float(ai[0]), float(vf)) and np.shape(ai) == (2,)):
            acc.violate("int-typed-x", {"term": cls}, {**case0, "x": xi}, float(vf), [float(vi), [float(v) for v in ai]],
                        f"{cls}{p}: membership({xi}) with an integer-typed x = {float(vi)!r}, with the float {float(vf)!r}")
            break
    sqrt_shaped = cls in ("Arc", "SemiEllipse")
    prev = None
    for k, x in enumerate(pts):
        v = float(y1[k])
        want = R.membership(cls, p, h, x)
        loc = where_of(cls, p, x)
        nontrivial = (want == want) and 0.0 < abs(want) < h if cls != "Constant" else True
        acc.case((cls, tuple(p), h, x), nontrivial=nontrivial)
        case = {**case0, "x": x}
        # array == elementwise, all entry points
        s_float = term.membership(x)
        s_0d = term.membership(np.array(x))
        if not (same(float(s_float), v) and same(float(s_0d), v) and same(float(y2[k, 0]), v)):
            acc.violate("array-vs-scalar", {"term": cls, "where": loc}, case, v,
                        [float(s_float), float(s_0d), float(y2[k, 0])], f"{cls}{p}: entry points disagree at x={x}")
        if np.shape(s_float) != () or np.shape(s_0d) != ():
            acc.violate("scalar-shape", {"term": cls}, case, "()", [np.shape(s_float), np.shape(s_0d)], "scalar in, non-scalar out")
        if cls == "Constant":
            if not same(v, want):
                acc.violate("value", {"term": cls, "where": loc}, case, want, v, "Constant != k")
            continue
        # NaN exactly when x is NaN
        if (v != v) != (x != x):
            acc.violate("nan", {"term": cls, "where": loc}, case, want, v,
                        f"{cls}{p} h={h}: membership({x}) = {v!r}; NaN must occur exactly when x is NaN")
            continue
        if x != x:
            continue
        # value against the documented definition
        if sqrt_shaped:
            ok = close(v, want, 1e-12, 1e-9) or abs(v * v - want * want) <= 1e-12
        else:
            ok = close(v, want, 1e-12, 1e-9)
        acc.cls("bit_identical" if same(v, want) else "within_tolerance" if ok else "mismatch")
        if not ok:
            acc.violate("value", {"term": cls, "where": loc}, case, want, v,
                        f"{cls}{p} h={h}: membership({x}) = {v!r}, documented definition gives {want!r}")
        # range [0, h]
        if not (-4 * math.ulp(h) <= v <= h + 4 * math.ulp(h)):
            acc.violate("range", {"term": cls, "where": loc}, case, [0.0, h], v, f"{cls}{p}: {v!r} outside [0,{h}]")
        # monotonicity along the sorted points
        if mono:
            d = R.direction(cls, p)
            if prev is not None and not (d * (v - prev[1]) >= -4 * math.ulp(h)):
                acc.violate("monotone", {"term": cls, "where": loc}, {**case, "x_prev": prev[0]}, f"direction {d}",
                            [prev[1], v], f"{cls}{p}: not monotone between x={prev[0]} and x={x}")
            prev = (x, v)


def run_shard(tier: str, seed: int, shard):
    cls, chunk = shard
    acc = Acc(ID)
    sets = G.param_sets(cls, tier, seed)
    heights = [1.0] if cls == "Constant" else G.HEIGHTS
    for idx, p in enumerate(sets):
        if idx % CHUNKS != chunk:
            continue
        xs = G.x_points(cls, p, tier, seed)
        for h in heights:
            acc.guard({"term": cls, "params": p, "height": h, "x": xs[0]}, check_term, acc, cls, p, h, xs)
        acc.extra["parameterisations"] += len(heights)
        if idx == chunk:
            acc.sample({"term": cls, "params": p, "height": heights[-1], "x": xs[len(xs) // 2],
                        "membership": float(G.make_term(cls, "t", p, heights[-1]).membership(xs[len(xs) // 2]))}, 1)
    return acc.result()


def summarize(tier: str, seed: int, merged: dict) -> dict:
    vac = []
    if merged["classes"].get("bit_identical", 0) + merged["classes"].get("within_tolerance", 0) < 1000:
        vac.append("too few value comparisons")
    return {
        "rule": (
            "all valid parameter tuples per term over the position alphabet "
            f"{G.positions(tier, seed)} (ordered/unordered as the term requires, +-inf shoulders, both directions) x "
            f"heights {G.HEIGHTS} x [each break point, its floating-point neighbours, mid points, a lattice over the "
            "support, +-1e6, +-inf, NaN]; float/0-d/1-D/2-D entry points, integer-typed x, float32 and float16 arrays; Discrete terms "
            f"with repeated x-coordinates; far-from-origin parameter sets {G.FAR}; non-trivial = documented value strictly "
            "between 0 and the height"
        ),
        "exhaustive": True,
        "vacuity_errors": vac,
        "assumptions": [
            "readings of loose docstrings listed at the top of vmc/ref/terms.py (Arc centre, |a-b| in "
            "SigmoidDifference, h in ZShape's first branch)",
            "value tolerance 1e-12 + 1e-9 relative (radicand tolerance for the two sqrt-shaped terms)",
        ],
    }


def replay(case: dict):
    acc = Acc(ID)
    p = [float(v) for v in case["params"]]
    xs = sorted({float(case[k]) for k in ("x", "x_prev") if k in case and not math.isnan(float(case[k]))})
    acc.guard(case, check_term, acc, case["term"], p, float(case["height"]), xs)
    return acc.violations

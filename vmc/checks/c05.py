"""C05 - hedges compute their formulas and keep degrees in [0,1].

K1: every x on the dyadic grid D_n of [0,1], the branch point 0.5 with its floating-point neighbours, and a
seed-phased non-dyadic lattice, for the 6 registered hedges; scalar, 1-D and 2-D array entry points.
"""

from __future__ import annotations

import math

import numpy as np

from ..explore import Acc
from ..lib import fl, seed_phase
from ..oracle import close, same
from ..ref import hedges as R

ID = "C05"
LEVEL = "exploration"
NAMES = ["any", "extremely", "not", "seldom", "somewhat", "very"]


def neighbours(x: float, k: int = 3):
    out = [x]
    lo = hi = x
    for _ in range(k):
        lo = math.nextafter(lo, -math.inf)
        hi = math.nextafter(hi, math.inf)
        out += [lo, hi]
    return out


def grid(tier: str, seed: int):
    n = 10 if tier == "quick" else 16
    dy = [i / 2**n for i in range(2**n + 1)]
    u = seed_phase(seed)
    m = 512 if tier == "quick" else 8192
    ph = [(i + u) / m for i in range(m)]
    extra = [v for v in neighbours(0.5) + neighbours(0.25) + neighbours(0.75) if 0 <= v <= 1]
    extra += [math.nextafter(0.0, 1.0), math.nextafter(1.0, 0.0), 5e-324, 2.0**-1022, 2.0**-537]
    # small degrees (tails of Gaussian / sigmoid terms): the formula must hold to RELATIVE accuracy there
    extra += [2.0**-k for k in (12, 20, 30, 40, 53, 54, 60, 100)] + [1e-5, 3e-7, 1e-8, 1e-12, 1e-16, 1e-20]
    return dy, sorted(set(ph + extra))


def plan(tier: str, seed: int):
    return [(name, part) for name in NAMES for part in ("dyadic", "other")]


POLLUTED = []


def pollute_other_registries() -> None:
    """Other HedgeFactory / FactoryManager instances are given foreign hedges under the registered names: the library's
    own registry (settings.factory_manager.hedge) and freshly built factories must not notice."""
    if POLLUTED:
        return

    class Cubic(fl.Hedge):
        def hedge(self, x):
            return fl.scalar(x) ** 3

    other = fl.HedgeFactory()
    tmp = fl.FactoryManager()
    for name in NAMES:
        other[name] = Cubic
        tmp.hedge[name] = Cubic
    with fl.settings.context(factory_manager=tmp):
        fl.Rule.create("if a is very b then c is d")
    POLLUTED.append((other, tmp))


def impl_of(name: str):
    pollute_other_registries()
    return fl.settings.factory_manager.hedge.construct(name)


def check(acc: Acc, name: str, xs: list[float], dyadic: bool) -> None:
    h = impl_of(name)
    if h.name != name:
        acc.violate("name", {"hedge": name}, {"hedge": name, "x": 0.0}, name, h.name, "factory key != hedge.name")
    ref = R.HEDGES[name]
    arr = np.array(xs)
    Y1 = h.hedge(arr)
    Y2 = h.hedge(arr.reshape(1, -1))
    if not np.array_equal(arr, np.array(xs)):
        acc.violate("input-array-modified", {"hedge": name}, {"hedge": name, "x": 0.5}, "x unchanged", "x overwritten",
                    f"{name}.hedge modifies the caller's array")
        return
    if np.shape(Y1) != arr.shape or np.shape(Y2) != (1, len(xs)):
        acc.violate("array-shape", {"hedge": name}, {"hedge": name, "x": xs[:4]}, arr.shape, np.shape(Y1),
                    f"{name}: array evaluation does not preserve the shape")
        return
    # one-element arrays keep their shape; results are fresh arrays (editing one does not change a later result)
    for shape in ((1,), (1, 1), (1, 1, 1)):
        one = np.full(shape, xs[len(xs) // 2])
        r = h.hedge(one)
        if not isinstance(r, np.ndarray) or r.shape != shape:
            acc.violate("array-shape", {"hedge": name, "shape": "one-element"}, {"hedge": name, "x": xs[len(xs) // 2]}, list(shape),
                        f"{type(r).__name__} {list(np.shape(r))}", f"{name}: a one-element array of shape {shape} comes back as {type(r).__name__} of shape {np.shape(r)}")
            return
    # empty arrays (elementwise over nothing): an empty array of the same shape comes back, no reduction may fail
    for shape in ((0,), (0, 3), (2, 0)):
        try:
            r = h.hedge(np.empty(shape))
            got = f"{type(r).__name__} {list(np.shape(r))}"
        except Exception as ex:  # noqa: BLE001
            got = f"{type(ex).__name__}: {str(ex)[:80]}"
        if got != f"ndarray {list(shape)}":
            acc.violate("array-shape", {"hedge": name, "shape": "empty"}, {"hedge": name, "x": xs[0], "empty_shape": list(shape)}, f"ndarray {list(shape)}", got,
                        f"{name}: an empty array of shape {shape} gives {got}")
            return
    first = h.hedge(arr)
    keep_first = np.array(first, dtype=float, copy=True)
    if isinstance(first, np.ndarray) and first.flags.writeable:
        first[...] = 0.5
    second = h.hedge(arr)
    if not np.array_equal(np.asarray(second, dtype=float), keep_first) or (isinstance(first, np.ndarray) and isinstance(second, np.ndarray) and np.shares_memory(first, second)):
        acc.violate("result-aliased", {"hedge": name}, {"hedge": name, "x": xs[0]}, keep_first[:4].tolist(), np.asarray(second, dtype=float)[:4].tolist(),
                    f"{name}: the array returned by an earlier call is returned again (or shares memory): editing it changed the next result")
        return
    sample = arr[:: max(1, len(xs) // 64)]
    want_sample = np.array([float(h.hedge(float(v))) for v in sample])
    kinds = {"list": lambda: h.hedge(list(sample)), "matrix": lambda: np.asarray(h.hedge(np.matrix(sample))).ravel(),
             "masked": lambda: np.ma.getdata(h.hedge(np.ma.masked_array(sample, mask=[k % 2 == 0 for k in range(len(sample))])))}
    for kind, fn in kinds.items():
        got = np.asarray(fn(), dtype=float).ravel()
        if got.shape != want_sample.shape or not np.allclose(got, want_sample, rtol=0, atol=1e-15):
            acc.violate("array-kind", {"hedge": name, "operand": kind}, {"hedge": name, "x": float(sample[len(sample) // 2])},
                        want_sample.tolist()[:4], got.tolist()[:4], f"{name}: a {kind} argument gives different values than the scalar calls")
    for dtype in (np.float32, np.float16):
        narrow = sample.astype(dtype)
        got = np.asarray(h.hedge(narrow), dtype=float)
        want_n = np.array([ref(float(v)) for v in narrow])  # the library converts to float64 first, then applies the formula
        if not np.allclose(got, want_n, rtol=0, atol=1e-12):
            acc.violate("array-kind", {"hedge": name, "operand": np.dtype(dtype).name}, {"hedge": name, "x": float(narrow[len(narrow) // 2])},
                        want_n.tolist()[:4], got.tolist()[:4], f"{name}: a {np.dtype(dtype).name} array is not evaluated in double precision")
    very, somewhat = impl_of("very"), impl_of("somewhat")
    extremely, seldom, not_ = impl_of("extremely"), impl_of("seldom"), impl_of("not")
    prev = None
    for k, x in enumerate(xs):
        acc.case((name, x), nontrivial=0.0 < x < 1.0)
        case = {"hedge": name, "x": x}
        y = float(Y1[k])
        s = h.hedge(x)
        # bit-identical on the dyadic grid (every operation exact or correctly rounded); off it numpy's array power
        # loop and its 0-d path may round x**2 differently by one ulp, which is not a different function
        eqs = same if dyadic else (lambda p, q: close(p, q, 1e-15, 1e-15))
        if not (eqs(float(s), y) and eqs(float(Y2[0, k]), y)) or np.shape(s) != ():
            acc.violate("array-vs-scalar", {"hedge": name}, case, float(s), y, f"{name}({x}): scalar != array element")
        want = ref(x)
        # sqrt is correctly rounded and squares of dyadics with <= 26 bits are exact: bit-identical on the dyadic grid
        ok = same(y, want) if dyadic else close(y, want, 1e-15, 1e-15)
        acc.cls("formula_exact" if dyadic else "formula_tolerance")
        if not ok:
            acc.violate("formula", {"hedge": name}, case, want, y, f"{name}({x}) = {y!r}, documented formula gives {want!r}")
        elif 0.0 < x < 2.0**-10 and want > 1e-300 and abs(y - want) > 1e-14 * want:
            # every documented formula is a product / square root of x near 0: a few ulps of the RESULT, not of 1
            acc.violate("formula", {"hedge": name, "small": True}, case, want, y,
                        f"{name}({x}) = {y!r}, documented formula gives {want!r} (relative error {abs(y - want) / want:.3g})")
        if not (0.0 <= y <= 1.0):
            acc.violate("range", {"hedge": name}, case, "[0,1]", y, f"{name}({x}) = {y!r} outside [0,1]")
        if prev is not None:
            px, py = prev
            slack = 0.0 if dyadic else 4 * math.ulp(1.0)
            if name == "not":
                if not (y <= py + slack):
                    acc.violate("monotone", {"hedge": name}, {**case, "x_prev": px}, f"<= {py!r}", y, "not is not antitone")
            elif not (y >= py - slack):
                acc.violate("monotone", {"hedge": name}, {**case, "x_prev": px}, f">= {py!r}", y,
                            f"{name} decreases between {px} and {x}")
        prev = (x, y)
        if name == "very":
            sw = float(somewhat.hedge(x))
            if not (y <= x <= sw):
                acc.violate("very-le-x-le-somewhat", {"hedge": name}, case, "very(x) <= x <= somewhat(x)", [y, x, sw], "order")
            rt = float(somewhat.hedge(y))
            # somewhat(very(x)) = x: exact when x*x is exact (<= 26 significant bits), else within rounding
            if not (same(rt, x) if dyadic and (x * 2**26).is_integer() else close(rt, x, 1e-15, 4e-16)):
                if not (y == 0.0 and x < 1e-150):  # x*x underflows to 0: inverse not representable
                    acc.violate("inverse", {"hedge": "somewhat.very"}, case, x, rt, f"somewhat(very({x})) = {rt!r}")
        if name == "somewhat":
            rt = float(very.hedge(y))
            if not close(rt, x, 1e-300, 1e-15):
                acc.violate("inverse", {"hedge": "very.somewhat"}, case, x, rt, f"very(somewhat({x})) = {rt!r}")
        if name == "extremely":
            rt = float(seldom.hedge(y))
            # composition through 1-y loses relative precision near 1: design tolerance 3.2-2
            if not close(rt, x, 1e-12, 1e-9):
                if not (y == 0.0 and x < 1e-150):
                    acc.violate("inverse", {"hedge": "seldom.extremely"}, case, x, rt, f"seldom(extremely({x})) = {rt!r}")
        if name == "seldom":
            rt = float(extremely.hedge(y))
            if not close(rt, x, 1e-12, 1e-9):
                acc.violate("inverse", {"hedge": "extremely.seldom"}, case, x, rt, f"extremely(seldom({x})) = {rt!r}")
        if name == "not":
            rt = float(not_.hedge(y))
            if not (same(rt, x) if dyadic else close(rt, x, 2e-16, 0)):
                acc.violate("involution", {"hedge": "not.not"}, case, x, rt, f"not(not({x})) = {rt!r}")
    # fixed points
    f0, f1 = float(h.hedge(0.0)), float(h.hedge(1.0))
    want0, want1 = {"any": (1.0, 1.0), "not": (1.0, 0.0)}.get(name, (0.0, 1.0))
    if not (same(f0, want0) and same(f1, want1)):
        acc.violate("fixed-points", {"hedge": name}, {"hedge": name, "x": 0.0}, [want0, want1], [f0, f1],
                    f"{name}(0), {name}(1) = {f0}, {f1}")


def run_shard(tier: str, seed: int, shard):
    name, part = shard
    acc = Acc(ID)
    dy, other = grid(tier, seed)
    if part == "dyadic":
        acc.guard({"hedge": name, "x": 0.5}, check, acc, name, dy, True)
        acc.sample({"hedge": name, "x": dy[3], "value": float(impl_of(name).hedge(dy[3]))})
    else:
        acc.guard({"hedge": name, "x": 0.5}, check, acc, name, other, False)
    return acc.result()


def summarize(tier: str, seed: int, merged: dict) -> dict:
    dy, other = grid(tier, seed)
    vac = []
    if merged["classes"].get("formula_exact", 0) != 6 * len(dy):
        vac.append("dyadic grid not fully compared")
    return {
        "rule": (
            f"every x of the dyadic grid (|D|={len(dy)}) and of the seed-phased lattice plus 0.25/0.5/0.75 with 3 "
            f"floating-point neighbours each side and the smallest/largest representable interior points "
            f"(|L|={len(other)}; incl. degrees 2^-12 .. 2^-100 and 1e-5 .. 1e-20, compared RELATIVELY below 2^-10), 6 hedges, scalar/1-D/2-D calls, "
            "list / matrix / masked / float32 / float16 arguments; non-trivial = x strictly inside (0,1)"
        ),
        "exhaustive": True,
        "vacuity_errors": vac,
        "assumptions": ["vmc/ref/hedges.py transcribes the docstring equations correctly"],
    }


def replay(case: dict):
    acc = Acc(ID)
    xs = sorted({float(case[k]) for k in ("x", "x_prev") if k in case and not isinstance(case[k], list)})
    name = case["hedge"].split(".")[-1]
    dyadic = all((x * 2**30).is_integer() for x in xs)
    check(acc, name, xs, dyadic)
    return acc.violations

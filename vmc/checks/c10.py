"""C10 - weighted defuzzifiers compute the grouped weighted average / sum.

K1: 2 defuzzifiers x {Automatic, TakagiSugeno, Tsukamoto} x ALL activation sequences of length 0..L over alphabets
of 2-4 terms (Takagi-Sugeno, Tsukamoto, inverse-Tsukamoto and mixed groups) x 4 degrees x {no aggregation, 9
S-norms}; scalar and batch degrees.  Oracle: vmc.ref.weighted, plus the metamorphic / relational clauses of the
statement (zero-degree activations, NaN iff no weight, average of constants within their range, Automatic == the
explicit kind, batch == scalar runs, grouped_terms / activation_degree).
"""

from __future__ import annotations

import itertools
import math

import numpy as np

from ..explore import Acc
from ..gen.termspace import make_term
from ..lib import fl
from ..oracle import close
from ..ref import norms as RN
from ..ref import terms as RT
from ..ref import weighted as RW

ID = "C10"
LEVEL = "exploration"
DEGREES = [0.0, 0.25, 0.5, 1.0]
AGGRS = [None] + RN.SNORMS
TYPES = ["Automatic", "TakagiSugeno", "Tsukamoto"]
WHICH = ["WeightedAverage", "WeightedSum"]
I1, I2 = 0.5, -1.0

SHAPE_SPECS = {
    "rampu": ("Ramp", [0.0, 1.0]),
    "rampd": ("Ramp", [1.0, 0.0]),
    "sigu": ("Sigmoid", [0.5, 8.0]),
    "sigd": ("Sigmoid", [0.5, -8.0]),
    "conc": ("Concave", [0.25, 0.75]),
    "ssh": ("SShape", [0.0, 2.0]),
    "zsh": ("ZShape", [-1.0, 1.0]),
    "arc": ("Arc", [0.0, 2.0]),  # radius 2: the inverse must scale with the radius
    "tri": ("Triangle", [0.0, 0.5, 1.0]),
    "gau": ("Gaussian", [0.5, 0.25]),
    "trap": ("Trapezoid", [0.0, 0.25, 0.5, 1.0]),
    "rect": ("Rectangle", [0.25, 0.75]),
}
TINY = 2.0**-12  # a positive degree below the library comparison tolerance (atol = 1e-3)
GROUPS = {
    "ts": ["k1", "k2", "lin", "fn"],
    "tsuka": ["rampu", "rampd", "sigu", "conc"],
    "tsukb": ["ssh", "zsh", "arc", "sigd"],
    "tsukh": ["ramph", "rampd"],  # a monotonic term of height 1/2
    "tsukl": ["sigl", "sshl", "arcl"],  # monotonic terms of height 1/4 (no inverse at 1/2: a zero degree must not be evaluated there)
    "inverse": ["tri", "gau", "trap", "rect"],
    "mixed-ts-inv": ["k1", "tri"],
    "mixed-ts-tsu": ["k2", "rampu"],
    "mixed-tsu-inv": ["rampd", "tri"],
}


def build_terms():
    """Real terms and their reference descriptions."""
    iv1 = fl.InputVariable("i1", minimum=-2.0, maximum=2.0)
    iv2 = fl.InputVariable("i2", minimum=-2.0, maximum=2.0)
    engine = fl.Engine("e", input_variables=[iv1, iv2])
    iv1.value, iv2.value = I1, I2
    real, ref = {}, {}
    real["k1"], ref["k1"] = fl.Constant("k1", 1.5), {"kind": "ts", "z": lambda w: 1.5, "tsukamoto": None}
    real["k2"], ref["k2"] = fl.Constant("k2", -2.0), {"kind": "ts", "z": lambda w: -2.0, "tsukamoto": None}
    real["lin"] = fl.Linear("lin", [2.0, 1.0, 0.25], engine)
    ref["lin"] = {"kind": "ts", "z": lambda w: 2.0 * I1 + 1.0 * I2 + 0.25, "tsukamoto": None}
    real["fn"] = fl.Function.create("fn", "2*i1 + x", engine)
    ref["fn"] = {"kind": "ts", "z": lambda w: 2.0 * I1 + w, "tsukamoto": None}
    for name, (cls, p) in SHAPE_SPECS.items():
        real[name] = make_term(cls, name, p, 1.0)
        mono = cls in RT.MONOTONIC
        ref[name] = {
            "kind": "tsukamoto" if mono else "inverse",
            "z": (lambda w, c=cls, q=p: RT.membership(c, q, 1.0, w)),
            "tsukamoto": (lambda w, c=cls, q=p: RT.tsukamoto(c, q, 1.0, w)) if mono else None,
        }
    for name, cls, p, h in (("ramph", "Ramp", [0.0, 1.0], 0.5), ("sigl", "Sigmoid", [0.5, 8.0], 0.25), ("sshl", "SShape", [0.0, 2.0], 0.25),
                            ("arcl", "Arc", [2.0, 0.0], 0.25)):
        real[name] = make_term(cls, name, p, h)
        ref[name] = {"kind": "tsukamoto", "z": (lambda w, c=cls, q=p, hh=h: RT.membership(c, q, hh, w)),
                     "tsukamoto": (lambda w, c=cls, q=p, hh=h: RT.tsukamoto(c, q, hh, w))}
    import copy
    for name in list(real):
        twin = copy.copy(real[name])  # same name and parameters, different object (Linear/Function keep the engine reference)
        real["~" + name] = twin
    return real, ref


def lengths(tier: str, group: str):
    n = len(GROUPS[group])
    if tier == "quick":
        return 3 if n > 2 else 4
    return 4 if n > 2 else 5


def plan(tier: str, seed: int):
    return [(g, a) for g in GROUPS for a in range(len(AGGRS))]


def outcome_of(fn):
    try:
        return ("value", fn())
    except RW.Refused as r:
        return ("raise", r.cls)
    except Exception as ex:  # noqa: BLE001
        return ("raise", type(ex).__name__)


SHARED: dict = {}


def shared_instance(which: str, real):
    """One long-lived Automatic instance per defuzzifier class, with canned fuzzy outputs of both kinds."""
    if which not in SHARED:
        ts = fl.Aggregated("o", 0.0, 1.0, None, [fl.Activated(real["k1"], 0.5, None)])
        tsu = fl.Aggregated("o", 0.0, 1.0, None, [fl.Activated(real["rampu"], 0.5, None)])
        want = {"WeightedAverage": (1.5, 0.5), "WeightedSum": (0.75, 0.25)}[which]
        SHARED[which] = (getattr(fl, which)(), ts, tsu, want)
    return SHARED[which]


def run_seq(acc: Acc, real, ref, group: str, aggr_name, seq, impl_cache) -> None:
    aggr = getattr(fl, aggr_name)() if aggr_name else None
    # activations of one term alternate between two distinct objects with the same name: grouping is by NAME
    acts = [fl.Activated(real[n] if k % 2 == 0 else real["~" + n], d, None) for k, (n, d) in enumerate(seq)]
    agg = fl.Aggregated("o", 0.0, 1.0, aggr, acts)
    case0 = {"group": group, "aggregation": aggr_name, "sequence": [list(s) for s in seq]}
    # grouped_terms / activation_degree
    want_groups = RW.grouped(seq, aggr_name)
    got_groups = agg.grouped_terms()
    gg = [(k, float(v.degree)) for k, v in got_groups.items()]
    wg = list(want_groups.items())
    if [k for k, _ in gg] != [k for k, _ in wg] or not all(close(a[1], b[1], 1e-15, 1e-15) for a, b in zip(gg, wg)):
        acc.violate("grouped-terms", {"aggregation": aggr_name or "none"}, case0, wg, gg, f"grouped_terms {gg}, expected {wg}")
    for n in GROUPS[group]:
        d = float(agg.activation_degree(real[n]))
        if not close(d, want_groups.get(n, 0.0), 1e-15, 1e-15):
            acc.violate("activation-degree", {}, {**case0, "term": n}, want_groups.get(n, 0.0), d, f"activation_degree({n}) = {d}")
    positive = [(n, d) for n, d in seq if d > 0.0]
    kinds = {ref[n]["kind"] for n, _ in seq}
    for which in WHICH:
        results = {}
        for type_ in TYPES:
            d = getattr(fl, which)(type_)
            got = outcome_of(lambda: float(d.defuzzify(agg)))
            got_again = outcome_of(lambda: float(d.defuzzify(agg))) if type_ == "Automatic" else got
            if got_again[0] != got[0] or (got[0] == "value" and not close(got_again[1], got[1], 0.0, 0.0)) or (got[0] == "raise" and got_again != got):
                acc.violate("not-repeatable", {"defuzzifier": which, "type": type_}, {**case0, "defuzzifier": which, "type": type_}, got, got_again,
                            f"{which}({type_}) on {case0['sequence']}: the second defuzzification gives {got_again}, the first {got}")
            want = outcome_of(lambda: RW.defuzzify(which, type_, seq, aggr_name, ref))
            results[type_] = got
            case = {**case0, "defuzzifier": which, "type": type_}
            nontrivial = len(want_groups) >= 1 and len(positive) >= 2 and want[0] == "value"
            acc.case((group, aggr_name, seq, which, type_), nontrivial=nontrivial)
            if got[0] != want[0] or (got[0] == "raise" and got[1] != want[1]):
                cause = "other"
                if got == ("value", got[1]) and want[0] == "value":
                    cause = "value"
                acc.violate("outcome", {"defuzzifier": which, "type": type_, "cause": cause}, case, want, got,
                            f"{which}({type_}) on {case0['sequence']} aggregation={aggr_name}: {got}, expected {want}")
                continue
            if got[0] == "raise":
                acc.cls(f"refused_{got[1]}")
                continue
            z, wz = got[1], want[1]
            if not close(z, wz, 1e-12, 1e-9):
                zero_tsuka = any(d == 0.0 for _, d in seq) and z != z and wz == wz
                acc.violate("value", {"defuzzifier": which, "type": type_,
                                      "cause": "nan-with-zero-degree-activation" if zero_tsuka else "other"}, case, wz, z,
                            f"{which}({type_}) on {case0['sequence']} aggregation={aggr_name} = {z!r}, expected {wz!r}")
                continue
            acc.cls("nan_result" if z != z else "finite_result")
            # NaN exactly when there are no activations or all weights are zero (finite z values)
            total_w = sum(want_groups.values())
            this = type_ if type_ != "Automatic" else RW.infer(seq, ref)
            zs = [(ref[n]["tsukamoto"] if this == "Tsukamoto" else ref[n]["z"])(w) for n, w in want_groups.items() if w > 0.0]
            # (only when every activated term has a finite value: a grouped degree above the height of a Tsukamoto
            # term, or degree = height for a sigmoid, has no finite inverse)
            if all(math.isfinite(v) for v in zs) and (z != z) != (not seq or total_w == 0.0):
                acc.violate("nan-iff-no-weight", {"defuzzifier": which}, case, "NaN iff no weight", z, "NaN clause")
            # zero-degree activations never change the result: compare with the sequence without them
            if len(positive) != len(seq):
                key = (which, type_, tuple(positive))
                if key not in impl_cache:
                    agg2 = fl.Aggregated("o", 0.0, 1.0, aggr, [fl.Activated(real[n], dd, None) for n, dd in positive])
                    impl_cache[key] = outcome_of(lambda: float(getattr(fl, which)(type_).defuzzify(agg2)))
                other = impl_cache[key]
                acc.cls("zero_insertions")
                same_kinds = {ref[n]["kind"] for n, _ in positive} == kinds or type_ != "Automatic"
                if same_kinds and positive and not (other[0] == "value" and close(other[1], z, 1e-12, 1e-9)):
                    acc.violate("zero-degree-changes-result", {"defuzzifier": which, "type": type_}, case, other, got,
                                f"{which}({type_}): removing the zero-degree activations changes {got} into {other}")
            # weighted average of constants lies within the activated constants
            if which == "WeightedAverage" and z == z and group == "ts" and all(n in ("k1", "k2") for n, _ in seq):
                ks = [1.5 if n == "k1" else -2.0 for n, d in positive]
                if ks and not (min(ks) - 1e-12 <= z <= max(ks) + 1e-12):
                    acc.violate("average-within-constants", {}, case, [min(ks), max(ks)], z, "average outside constants")
        # the kind is inferred per call: a long-lived Automatic instance that has just defuzzified an output of the
        # other kind must give the same result as a fresh one (and stay Automatic)
        inst, canned_ts, canned_tsu, (want_ts, want_tsu) = shared_instance(which, real)
        other, want_other = (canned_tsu, want_tsu) if "tsukamoto" not in kinds else (canned_ts, want_ts)
        got_other = outcome_of(lambda: float(inst.defuzzify(other)))
        got_shared = outcome_of(lambda: float(inst.defuzzify(agg)))
        fresh = results["Automatic"]
        acc.cls("shared_instance_calls")
        if got_other != ("value", want_other) or got_shared[0] != fresh[0] or (
                fresh[0] == "value" and not close(got_shared[1], fresh[1], 1e-15, 1e-15)) or (
                fresh[0] == "raise" and got_shared[1] != fresh[1]) or inst.type.name != "Automatic":
            acc.violate("shared-instance", {"defuzzifier": which}, {**case0, "defuzzifier": which}, [("value", want_other), fresh],
                        [got_other, got_shared, inst.type.name],
                        f"{which}: a reused Automatic instance gives {got_other}, {got_shared} (type now {inst.type.name}); fresh instances give {want_other}, {fresh}")
            SHARED.pop(which, None)
        # Automatic equals the explicit kind when all terms are of one kind
        if len(kinds) == 1 and seq:
            explicit = {"ts": "TakagiSugeno", "tsukamoto": "Tsukamoto", "inverse": "TakagiSugeno"}[next(iter(kinds))]
            a, e = results["Automatic"], results[explicit]
            if a[0] != e[0] or (a[0] == "value" and not close(a[1], e[1], 1e-15, 1e-15)):
                acc.violate("automatic-vs-explicit", {"defuzzifier": which}, {**case0, "defuzzifier": which}, e, a,
                            f"{which}: Automatic gives {a}, {explicit} gives {e}")


def run_paths(acc: Acc, real, ref, group: str, aggr_name, seq) -> None:
    """Construction paths (all sequences of length <= 2): the kind given as an enum member or through configure()
    instead of a string; the activations given as an iterator, or as a list the caller keeps using afterwards."""
    aggr = getattr(fl, aggr_name)() if aggr_name else None
    make = lambda: [fl.Activated(real[n], d, None) for n, d in seq]  # noqa: E731
    case0 = {"group": group, "aggregation": aggr_name, "sequence": [list(s) for s in seq], "paths": True}
    for which in WHICH:
        for type_ in TYPES:
            base = outcome_of(lambda: float(getattr(fl, which)(type_).defuzzify(fl.Aggregated("o", 0.0, 1.0, aggr, make()))))
            case = {**case0, "defuzzifier": which, "type": type_}
            variants = {}

            def by_enum():
                return float(getattr(fl, which)(fl.WeightedDefuzzifier.Type[type_]).defuzzify(fl.Aggregated("o", 0.0, 1.0, aggr, make())))

            def by_configure():
                d = getattr(fl, which)()
                d.configure(type_)
                return float(d.defuzzify(fl.Aggregated("o", 0.0, 1.0, aggr, make())))

            def from_iterator():
                agg = fl.Aggregated("o", 0.0, 1.0, aggr, iter(make()))
                d = getattr(fl, which)(type_)
                first = outcome_of(lambda: float(d.defuzzify(agg)))
                second = outcome_of(lambda: float(d.defuzzify(agg)))
                if first != second and not (first[0] == second[0] == "value" and close(first[1], second[1], 0.0, 0.0)):
                    return ("unstable", first, second)
                return first[1] if first[0] == "value" else first

            def caller_list():
                mine = make()
                agg = fl.Aggregated("o", 0.0, 1.0, aggr, mine)
                mine.append(fl.Activated(real[GROUPS[group][0]], 1.0, None))
                mine.reverse()
                del mine[:1]
                return float(getattr(fl, which)(type_).defuzzify(agg))

            def int_degrees():
                # degrees 0 / 1 given as Python ints and as a bool array (crisp activations): the same numbers
                if not all(d in (0.0, 1.0) for _, d in seq):
                    return base[1] if base[0] == "value" else base
                ints = fl.Aggregated("o", 0.0, 1.0, aggr, [fl.Activated(real[n], int(d), None) for n, d in seq])
                bools = fl.Aggregated("o", 0.0, 1.0, aggr, [fl.Activated(real[n], np.array([bool(d)]), None) for n, d in seq])
                a = outcome_of(lambda: float(getattr(fl, which)(type_).defuzzify(ints)))
                b = outcome_of(lambda: float(np.asarray(getattr(fl, which)(type_).defuzzify(bools), dtype=float).ravel()[0]))
                if a != b and not (a[0] == b[0] == "value" and close(a[1], b[1], 0.0, 0.0)):
                    return ("unstable", a, b)
                return a[1] if a[0] == "value" else a

            for name, fn in (("enum", by_enum), ("configure", by_configure), ("iterator", from_iterator), ("caller-list", caller_list),
                             ("int-degrees", int_degrees)):
                got = outcome_of(fn)
                if got[0] == "value" and isinstance(got[1], tuple) and got[1][0] == "raise":
                    got = got[1]
                variants[name] = got
                acc.cls("construction_paths")
                ok = got[0] == base[0] and ((got[0] == "raise" and got[1] == base[1]) or
                                            (got[0] == "value" and not isinstance(got[1], tuple) and close(got[1], base[1], 0.0, 0.0)))
                if not ok:
                    acc.violate("construction-path", {"defuzzifier": which, "path": name}, {**case, "path": name}, base, str(got),
                                f"{which}({type_}) on {case0['sequence']} built through '{name}' gives {got}, the plain construction {base}")


def run_batch(acc: Acc, real, ref, group: str, aggr_name, pair) -> None:
    rows = [(0.25, 1.0), (0.5, 0.0), (1.0, 0.5), (0.0, 0.0), (0.0, 0.75)]
    if "ramph" in pair:
        rows = [(0.25, 0.5), (0.5, 0.0), (0.125, 0.25), (0.0, 0.0), (0.0, 0.375)]  # degrees within the height 1/2
    if group == "tsukl":
        rows = [(0.125, 0.1875), (0.1875, 0.0), (0.0625, 0.125), (0.0, 0.0), (0.0, 0.125)]  # degrees within the height 1/4
    aggr = getattr(fl, aggr_name)() if aggr_name else None
    d1 = np.array([r[0] for r in rows])
    d2 = np.array([r[1] for r in rows])
    agg = fl.Aggregated("o", 0.0, 1.0, aggr, [fl.Activated(real[pair[0]], d1, None), fl.Activated(real[pair[1]], d2, None)])
    for which in WHICH:
        for type_ in TYPES:
            case = {"group": group, "aggregation": aggr_name, "pair": list(pair), "defuzzifier": which, "type": type_, "batch": rows}
            got = outcome_of(lambda: np.asarray(getattr(fl, which)(type_).defuzzify(agg), dtype=float))
            wants = [outcome_of(lambda r=r: RW.defuzzify(which, type_, [(pair[0], r[0]), (pair[1], r[1])], aggr_name, ref)) for r in rows]
            acc.case((group, aggr_name, pair, which, type_, "batch"), nontrivial=True)
            acc.cls("batch_rows", len(rows))
            if wants[0][0] == "raise":
                if got != wants[0]:
                    acc.violate("batch-outcome", {"defuzzifier": which}, case, wants[0], str(got), "batch: wrong refusal")
                continue
            if got[0] != "value" or np.shape(got[1]) != (len(rows),):
                acc.violate("batch-outcome", {"defuzzifier": which}, case, [w[1] for w in wants], str(got), "batch: wrong shape or raised")
                continue
            for k, w in enumerate(wants):
                if not close(float(got[1][k]), w[1], 1e-12, 1e-9):
                    zero = rows[k][0] == 0.0 or rows[k][1] == 0.0
                    acc.violate("batch-value", {"defuzzifier": which, "type": type_,
                                                "cause": "nan-with-zero-degree-activation" if zero and math.isnan(float(got[1][k])) else "other"},
                                {**case, "row": k}, w[1], float(got[1][k]),
                                f"{which}({type_}) batch row {rows[k]} on {pair}: {float(got[1][k])!r}, expected {w[1]!r}")


def run_shard(tier: str, seed: int, shard):
    group, ai = shard
    aggr_name = AGGRS[ai]
    acc = Acc(ID)
    real, ref = build_terms()
    atoms = [(n, d) for n in GROUPS[group] for d in DEGREES]
    cache: dict = {}
    for L in range(0, lengths(tier, group) + 1):
        for seq in itertools.product(atoms, repeat=L):
            acc.guard({"group": group, "aggregation": aggr_name, "sequence": [list(s) for s in seq]},
                      run_seq, acc, real, ref, group, aggr_name, seq, cache)
            if 1 <= L <= 2:
                acc.guard({"group": group, "aggregation": aggr_name, "sequence": [list(s) for s in seq], "paths": True},
                          run_paths, acc, real, ref, group, aggr_name, seq)
    for pair in itertools.product(GROUPS[group], repeat=2):
        acc.guard({"group": group, "aggregation": aggr_name, "pair": list(pair), "batch": True},
                  run_batch, acc, real, ref, group, aggr_name, pair)
    # total weights inside (0, atol]: the result is still the weighted average / sum, not NaN
    tiny_atoms = [(n, d) for n in GROUPS[group][:2] for d in (TINY, TINY / 2, 1e-200)]  # (1e-200: products of two degrees underflow)
    if group == "ts":  # a subnormal total weight (its reciprocal overflows; Tsukamoto inverses are not defined that low)
        tiny_atoms += [(n, 2.0**-1030) for n in GROUPS[group][:2]]
    for L in (1, 2):
        for seq in itertools.product(tiny_atoms, repeat=L):
            acc.guard({"group": group, "aggregation": aggr_name, "sequence": [list(s) for s in seq]},
                      run_seq, acc, real, ref, group, aggr_name, seq, cache)
            acc.cls("tiny_total_weight")
    if shard == ("tsuka", 1):
        seq = [("rampu", 0.5), ("conc", 0.25), ("rampu", 0.5)]
        acc.sample({"sequence": seq, "aggregation": aggr_name, "WeightedAverage(Automatic)":
                    RW.defuzzify("WeightedAverage", "Automatic", seq, aggr_name, ref)}, 1)
    return acc.result()


def summarize(tier: str, seed: int, merged: dict) -> dict:
    c = merged["classes"]
    vac = [f"outcome class {k} is empty" for k in ("finite_result", "nan_result", "refused_TypeError", "refused_RuntimeError",
                                                  "zero_insertions", "batch_rows") if not c.get(k)]
    return {
        "rule": (
            f"term groups {GROUPS} x aggregation in {{none}} U 9 S-norms x all activation sequences of length 0..L "
            f"(L={{g: lengths(tier, g) for g in GROUPS}}) over group x degrees {DEGREES} x 2 defuzzifiers x 3 types; batch "
            "degrees for all term pairs; total weights 2^-12 / 2^-13 / 1e-200 (Takagi-Sugeno also the subnormal 2^-1030); for all sequences of length <= 2 the kind given as enum member / through "
            "configure(), the activations as an iterator / as a caller-owned list edited afterwards; one long-lived Automatic instance per class; "
            "non-trivial = at least two positive activations and a defined result"
        ).replace("{g: lengths(tier, g) for g in GROUPS}", str({g: lengths(tier, g) for g in GROUPS})),
        "exhaustive": True,
        "vacuity_errors": vac,
        "assumptions": [
            "grouped degrees above the height of a Tsukamoto term are evaluated with the documented closed form (IEEE NaN/inf)",
            "mixed kinds under Automatic raise TypeError; a non-monotonic term under explicit Tsukamoto raises RuntimeError",
        ],
    }


def replay(case: dict):
    acc = Acc(ID)
    real, ref = build_terms()

    def num(x):
        return float(x) if not isinstance(x, str) or x in ("nan", "inf", "-inf") else x

    if case.get("paths"):
        seq = tuple((n, float(num(d))) for n, d in case["sequence"])
        acc.guard(case, run_paths, acc, real, ref, case["group"], case["aggregation"], seq)
    elif "batch" in case:
        acc.guard(case, run_batch, acc, real, ref, case["group"], case["aggregation"], tuple(case["pair"]))
    else:
        seq = tuple((n, float(num(d))) for n, d in case["sequence"])
        acc.guard(case, run_seq, acc, real, ref, case["group"], case["aggregation"], seq, {})
    return acc.violations

"""C02 - batch (vectorised) processing equals row-by-row float processing.

K1 differential: for each engine recipe (Mamdani, Larsen, Takagi-Sugeno, Tsukamoto, inverse Tsukamoto, hybrid,
chained blocks; every shape term; operator deviations; General activation) and EVERY batch of 1..N rows over a row
alphabet (interior, bound, break point, out of range, +inf, -inf, NaN): (i) a fresh engine is given per-variable
arrays, (ii) a fresh engine the input matrix through Engine.input_values, (iii) a fresh engine processes the rows
one after another with Python floats, (iv) the batch is split into two successive array calls at every position.
x lock-previous / default / lock-range settings on the outputs.
Oracle: row for row equal output values and fuzzy_value() strings, and equal exception class (or none).
"""

from __future__ import annotations

import itertools

import numpy as np

from ..explore import Acc, compositions
from ..gen import recipes as R
from ..oracle import close, same
from ..ref import norms as RN
from ..ref.rulegrammar import prop as P
from . import c01

ID = "C02"
LEVEL = "model_checking"
NAN, INF = float("nan"), float("inf")
ROWS1 = [0.3, 0.55, 0.0, 0.5, 1.25, INF, -INF, NAN]  # 1.25 = 2*end - inflection of the canonical Concave (a pole of its unused branch)
ROWS2 = [(0.25, 0.625), (0.625, 0.25), (0.0, 1.0), (1.5, 0.5), (NAN, 0.5), (INF, -INF), (1.0, NAN)]  # last: a saturated operand next to a NaN one
LOCKS_ALL = [(lp, d, lr) for lp in (False, True) for d in (NAN, 0.5) for lr in (False, True)]
LOCKS_FEW = [(False, NAN, False), (True, 0.5, True)]


import functools


@functools.lru_cache(maxsize=2)
def recipes(tier: str):
    """(recipe, full_lock_settings?)"""
    out = []
    # operator deviations from a Mamdani base (space A skeleton)
    base = ("Minimum", "Maximum", "Minimum", "Maximum")
    combos = {base, ("AlgebraicProduct", "AlgebraicSum", "AlgebraicProduct", "AlgebraicSum")}
    for k, alphabet in enumerate((RN.TNORMS, RN.SNORMS, RN.TNORMS, RN.SNORMS)):
        for name in alphabet:
            c = list(base)
            c[k] = name
            combos.add(tuple(c))
    a_rules = None
    for recipe, _ in c01.space_a("quick"):
        b = recipe["blocks"][0]
        o = recipe["outputs"][0]
        key = (b["conjunction"], b["disjunction"], b["implication"], o["aggregation"])
        if key in combos and o["defuzzifier"][0] == "Centroid":
            for df in (["Centroid", "MeanOfMaximum"] if tier == "quick" else c01.INTEGRAL):
                r = R.clone(recipe)
                r["outputs"][0]["defuzzifier"] = [df, 16]
                out.append((r, key == base and df == "Centroid"))
            a_rules = b["rules"]
    # every shape term, Takagi-Sugeno, Tsukamoto, inverse Tsukamoto (space B)
    seen = set()
    for recipe, _ in c01.space_b("quick"):
        cin = recipe["inputs"][0]["terms"][0]["cls"]
        o = recipe["outputs"][0]
        kind = (cin if o["defuzzifier"][0] == "Centroid" and o["terms"][0]["cls"] == cin else None,
                o["defuzzifier"][0], tuple(o["defuzzifier"][1:]), o["terms"][0]["cls"], o["aggregation"])
        if o["defuzzifier"][0] in c01.INTEGRAL and kind[0] is None:
            continue
        if o["defuzzifier"][0] not in c01.INTEGRAL and cin not in ("Triangle", "Gaussian", "Sigmoid"):
            continue
        if kind in seen:
            continue
        seen.add(kind)
        out.append((recipe, cin == "Triangle"))
    # hybrid: one integral and one weighted output, two blocks, an output variable in an antecedent
    k_terms = [R.shape("Constant", "lo", [0.25]), R.shape("Constant", "hi", [0.75])]
    hybrid = R.engine(
        "H", [R.in_var("x"), R.in_var("y")],
        [R.out_var("o1", aggregation="BoundedSum", defuzzifier=("Bisector", 16)),
         R.out_var("o2", terms=k_terms, aggregation=None, defuzzifier=("WeightedAverage", "Automatic"))],
        [R.block("rb1", a_rules[:2] and [R.rule(("and", P("x", (), "lo"), P("y", (), "hi")), [("o1", (), "lo"), ("o2", ("not",), "hi")]),
                                          R.rule(P("x", ("very",), "hi"), [("o1", (), "hi")], weight="0.500")],
                 "AlgebraicProduct", "AlgebraicSum", "AlgebraicProduct"),
         R.block("rb2", [R.rule(("or", P("o1", (), "hi"), P("y", (), "lo")), [("o2", (), "lo")]),
                         R.rule(P("y", ("any",), None), [("o2", (), "hi")], weight="0.250")], "Minimum", "Maximum", None)])
    out.append((hybrid, True))
    # a Takagi-Sugeno engine whose Function terms use every kind of registered function on the per-row variables
    from ..ref import formula as RF
    fterms = [R.function_term("u", RF.parse(["abs", "(", "a", "-", "0.500", ")", "+", "max", "(", "x", ",", "0.250", ")"])),
              R.function_term("v", RF.parse(["gt", "(", "a", ",", "0.400", ")", "*", "sin", "(", "a", ")", "-", "round", "(", "x", ")"]))]
    rules_f = [R.rule(P("a", (), "t"), [("o", (), "u")]), R.rule(P("a", ("not",), "t"), [("o", ("seldom",), "v")], weight="0.250")]
    out.append((R.engine("F", [R.in_var("a", terms=[R.shape("Triangle", "t", [0.0, 0.5, 1.0])])],
                         [R.out_var("o", -5.0, 5.0, terms=fterms, aggregation=None, defuzzifier=("WeightedAverage", "TakagiSugeno"))],
                         [R.block("rb", rules_f, implication=None)]), True))
    # an output variable that is disabled, and one whose only activation does not depend on the row (`any`): in a batch
    # their values stay scalars next to the other outputs' vectors
    dis = R.clone(hybrid)
    dis["name"] = "H-output-disabled"
    dis["outputs"][1]["enabled"] = False
    out.append((dis, False))
    const = R.engine(
        "K", [R.in_var("x"), R.in_var("y")],
        [R.out_var("o1"), R.out_var("o2", terms=k_terms, aggregation=None, defuzzifier=("WeightedAverage", "Automatic"))],
        [R.block("rb", [R.rule(("and", P("x", (), "lo"), P("y", (), "hi")), [("o1", (), "lo")]),
                        R.rule(P("x", ("any",), None), [("o2", (), "hi")], weight="0.500")], "Minimum", "Maximum", "Minimum")])
    out.append((const, False))
    # resolutions equal to the batch sizes (a square membership matrix must not be mistaken for its transpose)
    base_recipe = next(r for r, full in out if full)
    for df in c01.INTEGRAL:
        for res in (2, 3, 4):
            r = R.clone(base_recipe)
            r["name"] = f"{base_recipe['name']}-res{res}"
            r["outputs"][0]["defuzzifier"] = [df, res]
            out.append((r, False))
    # lock-range on the input variables: out-of-range rows must be clipped the same way in every mode
    for recipe, full in list(out):
        if full or recipe["outputs"][0]["defuzzifier"][0] in ("WeightedAverage", "WeightedSum") and recipe["inputs"][0]["terms"][0]["cls"] == "Triangle":
            r = R.clone(recipe)
            r["name"] = recipe["name"] + "-inlock"
            for v in r["inputs"]:
                v["lock_range"] = True
            out.append((r, False))
    for recipe, _ in c01.space_d("quick"):
        if recipe["blocks"][0]["activation"] == ["General"] and recipe["blocks"][1]["activation"] == ["General"]:
            if recipe["outputs"][0]["aggregation"] in (None, "Maximum", "AlgebraicSum") and recipe["blocks"][0]["name"] == "rb1":
                if [r["weight"] for r in recipe["blocks"][0]["rules"]] == [None, None, "0.500"]:
                    out.append((recipe, False))
    return out


def plan(tier: str, seed: int):
    jobs = []
    for idx, (_, full) in enumerate(recipes(tier)):
        for li in range(len(LOCKS_ALL if full else LOCKS_FEW)):
            jobs.append((idx, li))
    # heavy (full) jobs first so that the pool balances
    jobs.sort(key=lambda j: (not recipes(tier)[j[0]][1], j))
    return jobs


def with_locks(recipe: dict, lock) -> dict:
    lp, d, lr = lock
    r = R.clone(recipe)
    for o in r["outputs"]:
        o["lock_previous"], o["default"], o["lock_range"] = lp, d, lr
    return r


def run_mode(build, fn):
    engine = build()
    try:
        return None, fn(engine)
    except Exception as ex:  # noqa: BLE001
        return type(ex).__name__, None


def outputs_of(engine):
    vals = np.atleast_2d(np.asarray(engine.output_values, dtype=float))
    fz = [np.atleast_1d(ov.fuzzy_value()).tolist() for ov in engine.output_variables]
    return vals, fz


def float_mode(engine, rows):
    vals, fz = [], []
    for row in rows:
        for iv, x in zip(engine.input_variables, row):
            iv.value = float(x)
        engine.process()
        vals.append([float(np.asarray(ov.value, dtype=float)) for ov in engine.output_variables])
        fz.append([str(np.atleast_1d(ov.fuzzy_value())[0]) for ov in engine.output_variables])
    return np.array(vals, dtype=float).reshape(len(rows), -1), fz


def array_mode(engine, rows):
    for k, iv in enumerate(engine.input_variables):
        iv.value = np.array([r[k] for r in rows], dtype=float)
    engine.process()
    return outputs_of(engine)


def matrix_mode(engine, rows):
    m = np.array(rows, dtype=float)
    engine.input_values = m if m.shape[1] > 1 else m[:, 0]
    engine.process()
    return outputs_of(engine)


def split_mode(engine, rows, k):
    a = array_mode(engine, rows[:k])
    b = array_mode(engine, rows[k:])

    def per_row(col, n):  # a row-independent fuzzy value (disabled / constant output) holds for every row of its call
        return col * n if len(col) == 1 and n > 1 else col

    return np.vstack([a[0], b[0]]), [per_row(x, k) + per_row(y, len(rows) - k) for x, y in zip(a[1], b[1])]


def check_batch(acc: Acc, recipe: dict, lock, rows) -> None:
    case = {"recipe": recipe, "rows": [list(r) for r in rows], "lock": list(lock)}
    build = lambda: R.build(recipe)  # noqa: E731
    ex_f, res_f = run_mode(build, lambda e: float_mode(e, rows))
    acc.transitions += len(rows)
    modes = [("arrays", lambda e: array_mode(e, rows)), ("matrix", lambda e: matrix_mode(e, rows))]
    modes += [(f"split@{k}", (lambda e, kk=k: split_mode(e, rows, kk))) for k in range(1, len(rows))]
    has_nan = any(any(x != x for x in r) for r in rows)
    acc.case((acc.states, lock, rows), nontrivial=len(rows) >= 2)
    for name, fn in modes:
        ex_b, res_b = run_mode(build, fn)
        acc.transitions += 1
        acc.traces += 1
        sig = {"mode": name.split("@")[0]}
        if ex_f != ex_b:
            acc.violate("exception-differs", {**sig, "float": ex_f, "batch": ex_b}, {**case, "mode": name}, ex_f, ex_b,
                        f"float mode raises {ex_f}, {name} mode raises {ex_b} on rows {rows} lock={lock}")
            continue
        if ex_f is not None:
            acc.cls("both_raise")
            continue
        vf, ff = res_f
        vb, fb = res_b
        if vb.shape != vf.shape:
            acc.violate("shape", sig, {**case, "mode": name}, list(vf.shape), list(vb.shape), f"{name}: output matrix shape {vb.shape} != {vf.shape}")
            continue
        bad = [(i, j) for i in range(vf.shape[0]) for j in range(vf.shape[1]) if not close(vb[i, j], vf[i, j], 1e-12, 1e-9)]
        if bad:
            i, j = bad[0]
            acc.violate("value", {**sig, "nan_rows": has_nan, "locked": bool(lock[0] or lock[1] == lock[1])}, {**case, "mode": name, "row": i},
                        vf.tolist(), vb.tolist(), f"{name} mode row {i} output {j} = {vb[i, j]!r}, float mode gives {vf[i, j]!r} "
                        f"(rows {rows}, lock {lock})")
            continue
        acc.cls("bit_identical_rows", sum(1 for i in range(vf.shape[0]) if all(same(vb[i, j], vf[i, j]) for j in range(vf.shape[1]))))
        acc.cls("rows_compared", vf.shape[0])
        for o in range(len(fb)):
            col = [ff[i][o] for i in range(len(rows))]
            got_col = list(map(str, fb[o]))
            if len(got_col) == 1 and len(col) > 1:
                got_col = got_col * len(col)  # a row-independent fuzzy value (disabled / constant output) holds for every row
            if got_col != col:
                acc.violate("fuzzy-value", sig, {**case, "mode": name}, col, list(map(str, fb[o])),
                            f"{name} mode fuzzy values {fb[o]} != float mode {col}")
                break


def run_recipe(acc: Acc, recipe: dict, full: bool, tier: str, only_lock: int | None = None) -> None:
    n_in = len(recipe["inputs"])
    alphabet = [(x,) for x in ROWS1] if n_in == 1 else ROWS2
    acc.states += 1
    locks = LOCKS_ALL if full else LOCKS_FEW
    nmax = (3 if full else 2) if tier == "quick" else (4 if full else 3)
    if n_in == 2 and full and tier == "quick":
        nmax = 3
    for li, lock in enumerate(locks):
        if only_lock is not None and li != only_lock:
            continue
        r = with_locks(recipe, lock)
        for n in range(1, nmax + 1):
            for rows in itertools.product(alphabet, repeat=n):
                acc.guard({"recipe": r, "rows": [list(x) for x in rows], "lock": list(lock)}, check_batch, acc, r, lock, rows)


def run_shard(tier: str, seed: int, shard):
    idx, li = shard
    acc = Acc(ID)
    recipe, full = recipes(tier)[idx]
    run_recipe(acc, recipe, full, tier, li)
    if li == 0:
        acc.cls("engines")
    if shard == (0, 0):
        acc.sample({"engine": "space A base (Mamdani, Centroid)", "rows": [[0.25, 0.625], ["nan", 0.5], [0.0, 1.0]],
                    "lock": [True, 0.5, True], "modes": ["float rows", "per-variable arrays", "input matrix", "split@1", "split@2"]}, 1)
    return acc.result()


def summarize(tier: str, seed: int, merged: dict) -> dict:
    c = merged["classes"]
    vac = [f"outcome class {k} is empty" for k in ("engines", "rows_compared", "bit_identical_rows") if not c.get(k)]
    return {
        "rule": (
            f"{len(recipes(tier))} engine recipes (operator deviations of a 3-rule Mamdani engine x integral defuzzifiers, "
            "all 20 shape terms, Takagi-Sugeno with Constant/Linear/Function, Tsukamoto, inverse Tsukamoto, a hybrid with "
            "chained blocks, chained-output engines) x all batches of 1..N rows over the row alphabet "
            f"{ROWS1} (1 input) / {ROWS2} (2 inputs) (N = 2-3 quick, 3-4 thorough) x lock settings (all 8 for the base "
            "engines, 2 otherwise) x modes {arrays, matrix, every split}. states = engines, transitions = process calls, "
            "traces = batch-vs-float comparisons; non-trivial = at least two rows"
        ),
        "exhaustive": True,
        "vacuity_errors": vac,
        "assumptions": ["General activation only (the other methods reject batches, C08)"],
    }


def replay(case: dict):
    acc = Acc(ID)
    recipe = c01.fix_recipe(case["recipe"])
    rows = tuple(tuple(c01._unjson(r)) for r in case["rows"])
    lock = tuple(c01._unjson(case["lock"]))
    acc.guard(case, check_batch, acc, recipe, lock, rows)
    return acc.violations

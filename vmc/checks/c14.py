"""C14 - FuzzyLite Language export/import round-trips engines.

K4 deviation-bounded enumeration: five base engines (Mamdani, Larsen with chained blocks, Takagi-Sugeno, Tsukamoto,
hybrid) plus EVERY single-field deviation (thorough: every pair of deviations from different field groups on the
Mamdani and Takagi-Sugeno bases), each field ranging over its whole alphabet (every registered term class and
parameter shape, heights, every norm or none per role, every defuzzifier and parameter, every activation method and
parameter, flags, defaults, ranges, descriptions, names, rule weights) x decimals settings.
Oracle: (i) export(import(export(E))) == export(E); (ii) structural equality of E and import(export(E)) by an
independent walker; (iii) when every number is representable at the decimals in force: bit-identical outputs on an
input grid; (iv) importer normalisation: for accepted variants of a text, N = export o import satisfies N(N(T)) = N(T).
"""

from __future__ import annotations

import itertools
import math

import numpy as np

from ..explore import Acc
from ..gen import deviations as D
from ..gen import recipes as R
from ..lib import fl, reset_settings
from ..oracle import same
from . import c01, c13

ID = "C14"
LEVEL = "model_checking"
NAN = float("nan")
GRID_VALUES = [0.25, 0.625, NAN]


ODD_NAMES = ["-1st", "(3)rd", "1st", "_x1", "x.y", "x-y", "9", "-", "a b"]


def bases():
    return c13.engine_recipes()[:5]


def shared_bases():
    """Engines whose outputs share ONE defuzzifier / operator instance (the imported engine has one per variable)."""
    return [r for r, _ in c01.space_g("quick")]


def prefix_recipes(base: dict):
    """Every prefix of the component sequence (description, inputs..., outputs..., rule blocks...) of a base engine:
    the engine with only a name, name + description, + the first i inputs, + the first o outputs, + the first b blocks.
    Rule blocks need all the variables, so they are only kept once every variable is present."""
    ni, no, nb = len(base["inputs"]), len(base["outputs"]), len(base["blocks"])
    seq = [(0, 0, 0)] + [(i, 0, 0) for i in range(1, ni + 1)] + [(ni, o, 0) for o in range(1, no + 1)] + [(ni, no, b) for b in range(1, nb)]
    for desc in ("", "a prefix engine"):
        for i, o, b in seq:
            yield f"prefix:{i}in,{o}out,{b}blocks,description={bool(desc)}", {
                **base, "name": base["name"] + "-prefix", "description": desc, "inputs": base["inputs"][:i], "outputs": base["outputs"][:o], "blocks": base["blocks"][:b]}


def decimals_for(tier: str):
    return [3, 9, 1] if tier == "quick" else list(range(1, 10))


def numbers_of(recipe):
    """(kind, value) of every numeric field that the FLL text carries."""
    for v in recipe["inputs"] + recipe["outputs"]:
        yield "param", v["min"]
        yield "param", v["max"]
        for t in v["terms"]:
            for p in t.get("params", []):
                yield "param", p
            yield "height", t.get("height", 1.0)
    for o in recipe["outputs"]:
        yield "param", o.get("default", NAN)
    for b in recipe["blocks"]:
        a = b.get("activation") or []
        for p in a[1:]:
            if isinstance(p, float):
                yield "param", p
        for r in b["rules"]:
            yield "height", float(r["weight"]) if r.get("weight") else 1.0


def printable(v: float, d: int) -> bool:
    return not math.isfinite(v) or float(f"{v:.{d}f}") == v


def representable(recipe, d: int) -> bool:
    for kind, v in numbers_of(recipe):
        if not printable(v, d):
            return False
        if kind == "height" and v != 1.0 and abs(v - 1.0) <= 1e-3:
            return False
    return True


def prints_as_one(recipe, d: int) -> bool:
    return any(kind == "height" and abs(v - 1.0) > 1e-3 and f"{v:.{d}f}" == f"{1.0:.{d}f}" for kind, v in numbers_of(recipe))


def approx(a, b, tol: float, key: str = "") -> bool:
    if isinstance(a, tuple) and isinstance(b, tuple):
        if len(a) != len(b):
            return False
        if len(a) == 2 and isinstance(a[0], str) and not isinstance(a[1], tuple) and a[0] == b[0]:
            return approx(a[1], b[1], tol, a[0])
        return all(approx(x, y, tol, key) for x, y in zip(a, b))
    if isinstance(a, bool) or isinstance(b, bool) or isinstance(a, str) or isinstance(b, str) or a is None or b is None:
        return a == b
    if isinstance(a, (int, float)) and isinstance(b, (int, float)):
        if a != a or b != b:
            return a != a and b != b
        if math.isinf(a) or math.isinf(b):
            return a == b
        t = tol
        if key in ("height", "weight") and (abs(a - 1.0) <= 1.0000001e-3 or abs(b - 1.0) <= 1.0000001e-3):
            t = max(tol, 1.0000001e-3)  # a height/weight within the comparison tolerance of 1 is exported as 1
        return abs(a - b) <= t
    return a == b


def structure(engine):
    engine.restart()
    s = c13.snap(engine)
    # rule text carries formatted numbers; the weight is compared numerically, the antecedent by its postfix
    name, ins, outs, blocks = s
    blocks = tuple(b[:6] + (tuple(("rule", r[1], ("weight", r[2]), r[5], r[6], r[7]) for r in b[6]),) for b in blocks)
    return (name, engine.description, ins, tuple(o[:7] + o[9:12] + (("description", v.description),) for o, v in zip(outs, engine.output_variables)),
            tuple((("description", b.description),) for b in engine.rule_blocks), blocks,
            tuple(("description", v.description) for v in engine.input_variables))


def outputs_on_grid(engine, n_in: int):
    res = []
    for row in itertools.product(GRID_VALUES, repeat=n_in):
        for ov in engine.output_variables:
            ov.clear()  # (not Engine.restart: reloading the rules would put both engines into the same freshly loaded state)
        for iv, x in zip(engine.input_variables, row):
            iv.value = x
        try:
            engine.process()
            res.append(tuple(float(np.asarray(ov.value, dtype=float)) for ov in engine.output_variables))
        except Exception as ex:  # noqa: BLE001
            res.append(type(ex).__name__)
    return res


SEPARATORS = ["\n", "; ", " | ", "\n\n"]


def run_recipe(acc: Acc, group: str, label: str, recipe: dict, d: int, separator: str = "\n") -> None:
    case = {"label": label, "group": group, "decimals": d, "recipe": recipe, "separator": separator}
    reset_settings()
    fl.settings.decimals = d
    try:
        E = R.build(recipe)
        if separator == "\n":
            ex, im = fl.FllExporter(), fl.FllImporter()
        else:  # an exporter / importer pair configured with another statement separator
            ex, im = fl.FllExporter(separator=separator), fl.FllImporter(separator=separator)
        T1 = ex.to_string(E)
        acc.transitions += 1
        if ex.to_string(E) != T1:
            acc.violate("not-repeatable", {"group": group}, case, T1[:200], "differs", f"[{label}] d={d}: exporting the same engine twice gives different text")
            return
        # an engine that has been used exports the same text (processing does not reconfigure it)
        for iv in E.input_variables:
            iv.value = 0.25
        try:
            E.process()
        except Exception:  # noqa: BLE001
            pass
        acc.transitions += 1
        T_used = ex.to_string(E)
        if T_used != T1:
            l1, l2 = T1.split("\n"), T_used.split("\n")
            diff = next(((a, b) for a, b in itertools.zip_longest(l1, l2) if a != b), ("", ""))
            acc.violate("changed-by-processing", {"group": group}, case, diff[0], diff[1],
                        f"[{label}] d={d}: after one process() call the engine exports {diff[1]!r} instead of {diff[0]!r}")
            return
        # argument kinds: the same engine built from numpy.float32 scalars exports the same text (when every number is
        # exactly representable in single precision, so that the two engines hold the same values)
        nums = [v for _, v in numbers_of(recipe)]
        if d in (3, 9) and all(v != v or abs(v) == math.inf or float(np.float32(v)) == v for v in nums):
            T32 = ex.to_string(R.build_with_number(recipe, np.float32))
            acc.transitions += 1
            acc.cls("float32_builds")
            if T32 != T1:
                l1, l2 = T1.split("\n"), T32.split("\n")
                diff = next(((a, b) for a, b in itertools.zip_longest(l1, l2) if a != b), ("", ""))
                acc.violate("argument-kind", {"kind": "float32"}, case, diff[0], diff[1],
                            f"[{label}] d={d}: the engine built from numpy.float32 arguments exports {diff[1]!r} instead of {diff[0]!r}")
                return
        try:
            E2 = im.from_string(T1)
        except Exception as exn:  # noqa: BLE001
            acc.violate("import-rejects-export", {"group": group, "error": type(exn).__name__}, case, "importable", f"{type(exn).__name__}: {exn}",
                        f"[{label}] d={d}: the exported text is rejected by the importer: {type(exn).__name__}: {str(exn)[:100]}")
            return
        T2 = ex.to_string(E2)
        acc.transitions += 2
        acc.case((label, d), nontrivial=True)
        if T2 != T1:
            l1, l2 = T1.split("\n"), T2.split("\n")
            diff = next(((a, b) for a, b in itertools.zip_longest(l1, l2) if a != b), ("", ""))
            cause = "height-or-weight-prints-as-one" if prints_as_one(recipe, d) and d < 3 else "other"
            acc.violate("text-fixed-point", {"cause": cause, "group": group if cause == "other" else "height"}, case, diff[0], diff[1],
                        f"[{label}] d={d}: export(import(export(E))) differs: {diff[0]!r} -> {diff[1]!r}")
            return
        # (ii) structure
        tol = 0.5000001 * 10.0**-d
        s1, s2 = structure(E), structure(E2)
        acc.traces += 1
        if not approx(s1, s2, tol):
            where = next((k for k, (a, b) in enumerate(zip(s1, s2)) if not approx(a, b, tol)), -1)
            acc.violate("structure", {"group": group, "part": ["name", "description", "inputs", "outputs", "block-descriptions", "blocks", "input-descriptions"][where]},
                        case, "same structure", "differs", f"[{label}] d={d}: the imported engine differs structurally from the original")
            return
        # (iii) same outputs when every number is representable
        if representable(recipe, d):
            acc.cls("representable")
            o1, o2 = outputs_on_grid(E, len(recipe["inputs"])), outputs_on_grid(E2, len(recipe["inputs"]))
            acc.transitions += 2 * len(o1)
            for k, (a, b) in enumerate(zip(o1, o2)):
                if isinstance(a, str) or isinstance(b, str):
                    if a != b:
                        acc.violate("outputs", {"group": group, "what": "exception"}, {**case, "row": k}, a, b, f"[{label}] d={d}: original {a}, imported {b}")
                        return
                elif not all(same(x, y) for x, y in zip(a, b)):
                    acc.violate("outputs", {"group": group, "what": "value"}, {**case, "row": k}, a, b,
                                f"[{label}] d={d}: outputs of the imported engine {b} differ from the original {a}")
                    return
        else:
            acc.cls("not_representable")
    finally:
        reset_settings()


# ---------------------------------------------------------------------------------------------------------------------
def text_variants(text: str):
    lines = text.rstrip("\n").split("\n")
    yield "comments", [ln + "  # a comment" for ln in lines]
    yield "blank-lines", [x for ln in lines for x in (ln, "", "   ")]
    yield "leading-comment", ["# header comment", ""] + lines
    yield "extra-spaces", [ln.replace(": ", ":    ", 1).replace(" ", "  ") if ln.startswith("  ") and not ln.strip().startswith(("rule", "description", "term")) else ln for ln in lines]
    # block-internal key order: reverse / rotate the property lines (not the terms or rules) of every block
    def reorder(fn):
        out, block = [], []
        def flush():
            props = [b for b in block if not b.strip().startswith(("term:", "rule:"))]
            rest = [b for b in block if b.strip().startswith(("term:", "rule:"))]
            out.extend(fn(props) + rest)
        for ln in lines:
            if not ln.startswith("  "):
                flush()
                block.clear()
                out.append(ln)
            else:
                block.append(ln)
        flush()
        return out
    yield "reversed-keys", reorder(lambda p: p[::-1])
    yield "rotated-keys", reorder(lambda p: p[1:] + p[:1])
    for i, ln in enumerate(lines):
        if ln.startswith("  ") and not ln.strip().startswith(("term:", "rule:")):
            yield f"omit:{ln.strip().split(':')[0]}", lines[:i] + lines[i + 1:]
    import re
    data = lambda ln: not ln.strip().startswith(("rule", "description", "Engine", "InputVariable", "OutputVariable", "RuleBlock")) and " Function " not in ln  # noqa: E731
    yield "int-looking", [re.sub(r"(?<![\w.])(-?\d+)\.0+(?![\w.])", r"\1", ln) if data(ln) else ln for ln in lines]
    yield "over-precise", [re.sub(r"(?<![\w.])(-?\d+\.\d*[1-9])0*(?![\w.])", r"\g<1>0000000000004", ln) if data(ln) else ln for ln in lines]
    yield "crlf-free-tabs", [ln.replace("  ", "\t", 1) if ln.startswith("  ") else ln for ln in lines]
    # names that are not identifiers (the importer rewrites them): an extra unused variable / an extra term
    first_var = next(i for i, ln in enumerate(lines) if ln.startswith("InputVariable:"))
    end_var = next(i for i in range(first_var + 1, len(lines)) if not lines[i].startswith("  "))
    for odd in ODD_NAMES:
        block = [f"InputVariable: {odd}"] + [ln for ln in lines[first_var + 1:end_var]]
        yield f"odd-variable-name:{odd}", lines[:end_var] + block + lines[end_var:]
        yield f"odd-term-name:{odd}", lines[:end_var] + [f"  term: {odd} Triangle 0.000 0.500 1.000"] + lines[end_var:]


def run_variants(acc: Acc, recipe: dict, d: int) -> None:
    reset_settings()
    fl.settings.decimals = d
    try:
        ex, im = fl.FllExporter(), fl.FllImporter()
        base_text = ex.to_string(R.build(recipe))
        for name, lines in text_variants(base_text):
            text = "\n".join(lines) + "\n"
            case = {"label": f"variant:{name}", "group": "variant", "decimals": d, "recipe": recipe, "text": text}
            acc.case((recipe["name"], name, d), nontrivial=True)
            acc.transitions += 1
            try:
                n1 = ex.to_string(im.from_string(text))
            except (SyntaxError, ValueError, KeyError):
                acc.cls("variant_rejected")
                continue
            n2 = ex.to_string(im.from_string(n1))
            acc.traces += 1
            acc.cls("variant_accepted")
            if n2 != n1:
                acc.violate("normalisation", {"variant": name.split(":")[0]}, case, n1, n2, f"variant {name} of {recipe['name']} d={d}: N(N(T)) != N(T)")
            elif name in ("comments", "blank-lines", "leading-comment", "extra-spaces", "reversed-keys", "rotated-keys", "int-looking") and n1 != base_text:
                acc.violate("normalisation-changes-meaning", {"variant": name}, case, base_text, n1, f"variant {name} of {recipe['name']} d={d} normalises to a different text")
    finally:
        reset_settings()


# ---------------------------------------------------------------------------------------------------------------------
def jobs(tier: str):
    out = []
    for bi, base in enumerate(bases()):
        out.append((bi, "base", "base", ()))
        for group, label, fn in D.singles(base):
            out.append((bi, group, label, (fn,)))
    return out


N_SHARDS = 48


def plan(tier: str, seed: int):
    return list(range(N_SHARDS))


def run_shard(tier: str, seed: int, shard: int):
    acc = Acc(ID)
    bs = bases()
    ds = decimals_for(tier)
    idx = 0
    for bi, base in enumerate(bs):
        items = [("base", "base", ())] + [(g, lbl, (fn,)) for g, lbl, fn in D.singles(base)]
        if tier == "thorough" and bi in (0, 2):
            items += [(g, lbl, fns) for g, lbl, fns in D.pairs(base)]
        for group, label, fns in items:
            idx += 1
            if idx % N_SHARDS != shard:
                continue
            try:
                recipe = D.apply(base, fns)
            except (IndexError, KeyError):
                acc.cls("pair_not_composable")  # the first deviation removed the field the second one edits (e.g. no rule blocks)
                continue
            acc.states += 1
            acc.cls(f"group_{group.split('+')[0]}")
            pair = "+" in group
            for d in (ds if not pair else [3, 1]):
                acc.guard({"label": label, "group": group, "decimals": d, "recipe": recipe}, run_recipe, acc, group, f"{base['name']}:{label}", recipe, d)
            if group == "base":
                for sep in SEPARATORS[1:]:
                    acc.guard({"label": label, "group": group, "decimals": 3, "recipe": recipe, "separator": sep}, run_recipe, acc, "separator",
                              f"{base['name']}:separator={sep!r}", recipe, 3, sep)
                    acc.cls("separator_pairs")
        if shard == bi:
            for d in (3, 9):
                acc.guard({"label": "variants", "group": "variant", "decimals": d, "recipe": base}, run_variants, acc, base, d)
        if shard == bi + len(bs):
            for label, recipe in prefix_recipes(base):
                acc.states += 1
                acc.cls("group_prefix")
                acc.guard({"label": label, "group": "prefix", "decimals": 3, "recipe": recipe}, run_recipe, acc, "prefix", f"{base['name']}:{label}", recipe, 3)
    for k, recipe in enumerate(shared_bases()):
        if k % N_SHARDS == shard:
            acc.states += 1
            acc.cls("group_shared")
            for d in (3, 9):
                acc.guard({"label": f"shared:{k}", "group": "shared", "decimals": d, "recipe": recipe}, run_recipe, acc, "shared", f"G{k}:shared-instances", recipe, d)
    if shard == 0:
        reset_settings()
        acc.sample({"base": "A", "deviation": "in0.term0=Discrete[0,0,0.25,1,...] h0.5", "decimals": 3,
                    "exported_term_line": fl.FllExporter().term(fl.Discrete("lo", fl.Discrete.to_xy([0.0, 0.25], [0.0, 1.0]), 0.5))}, 1)
    return acc.result()


def summarize(tier: str, seed: int, merged: dict) -> dict:
    c = merged["classes"]
    need = ["representable", "not_representable", "variant_accepted", "group_term", "group_norm", "group_defuzzifier",
            "group_activation", "group_flag", "group_weight", "group_description", "group_prefix"]
    vac = [f"outcome class {k} is empty" for k in need if not c.get(k)]
    n_single = sum(len(D.singles(b)) + 1 for b in bases())
    return {
        "rule": (
            f"5 base engines + every single-field deviation ({n_single} engines"
            + (", plus every pair of deviations from different groups on the Mamdani and Takagi-Sugeno bases" if tier == "thorough" else "")
            + f") x decimals {decimals_for(tier)} (the base engines also through exporter / importer pairs with the statement separators {SEPARATORS[1:]}; at decimals 3 and 9 also built from numpy.float32 arguments); every prefix of each base engine's component sequence (name only, + description, + inputs, + outputs, + blocks); text variants (comments, blank lines, key order, omitted keys, int-looking and "
            f"over-precise numbers, an extra variable / term named each of {ODD_NAMES}) of the 5 base documents at decimals 3 and 9. states = engines, transitions = exports/imports/"
            "process calls, traces = structural comparisons; every case is non-trivial"
        ),
        "exhaustive": True,
        "vacuity_errors": vac,
        "assumptions": [
            "rules are always enabled (the FuzzyLite Language has no per-rule enabled flag) and descriptions carry no leading/trailing blanks",
            "structure is compared to the printed precision (heights and weights additionally within the comparison tolerance)",
        ],
    }


def replay(case: dict):
    acc = Acc(ID)
    recipe = c01.fix_recipe(case["recipe"])
    if case.get("group") == "variant":
        acc.guard(case, run_variants, acc, recipe, case["decimals"])
        return [v for v in acc.violations if v["case"]["label"] == case["label"]] if case["label"] != "variants" else acc.violations
    acc.guard(case, run_recipe, acc, case["group"], case["label"], recipe, case["decimals"], case.get("separator", "\n"))
    return acc.violations

"""C17 - Function formulas follow the documented precedence and associativity.

K3 grammar-bounded enumeration of formula trees by operator/function node count:
  (a) all well-typed trees with <= 2 nodes over the full alphabet (13 operators, 7 leaves, 6 function signatures)
  (b) all well-typed trees with 3 nodes over a reduced alphabet
  (c) every one of the 34 registered functions/constants in every depth-<=2 context
  (d) all operator chains a o1 b o2 c o3 d o4 e over the 9 binary operators, and with one unary prefix at every
      operand position (parsed by a reference Pratt parser of the documented table)
each printed minimally parenthesised, fully parenthesised and without spaces, loaded with Function.create and
evaluated through Function.membership for scalar and array variable assignments.
Oracle: the value of the SOURCE TREE under vmc.ref.formula; the implementation's postfix must equal the tree's
postfix and the reference RPN evaluation of that postfix must give the same values; ill-formed variants (operand
deleted, argument added/removed, parenthesis added/removed) must be rejected by Function.create.
"""

from __future__ import annotations

import itertools
import math

import numpy as np

from ..explore import Acc
from ..gen import formulas as G
from ..lib import fl
from ..oracle import ALLOWED_REJECTIONS, close
from ..ref import formula as F

ID = "C17"
LEVEL = "model_checking"

X, Y, I_ = ("var", "x"), ("var", "y"), ("var", "i")
N2, NH, N3 = ("num", "2.000"), ("num", "0.500"), ("num", "3.250")
PI = ("call", "pi", [])
ENVS = [(2.0, 3.0, 0.5), (-1.5, 0.5, 2.0), (0.0, -2.0, 1.0), (0.25, 0.0, -3.0)]
NAN = float("nan")
STYLES = ["minimal", "full", "nospace", "whitespace"]  # whitespace: tabs and newlines instead of blanks
UN_OPS = ["!", "~", ".-", ".+"]
BIN_OPS = ["^", "**", "*", "/", "%", "+", "-", "and", "or"]


class Ctx:
    def __init__(self) -> None:
        self.iv = fl.InputVariable("i", minimum=-10.0, maximum=10.0)
        self.engine = fl.Engine("e", input_variables=[self.iv])
        self.reused = fl.Function.create("r", "x", self.engine)  # one long-lived term, re-configured with every formula


def env_of(k: int) -> dict:
    x, y, i = ENVS[k]
    return {"x": x, "y": y, "i": i}


def impl_eval(ctx: Ctx, term, env) -> np.ndarray:
    ctx.iv.value = env["i"]
    term.variables = {"y": env["y"]}
    return np.asarray(term.membership(env["x"]), dtype=float)


def run_tree(acc: Acc, ctx: Ctx, tree, family: str, flat: list[str] | None = None) -> None:
    want_postfix = F.postfix(tree)
    texts = {}
    for style in STYLES:
        if flat is not None and style == "minimal":
            texts[style] = " ".join(flat)
        elif flat is not None and style == "nospace":
            texts[style] = "".join(f" {t} " if t in ("and", "or") else t for t in flat).strip()
        elif style == "whitespace":
            parts = texts["minimal"].split(" ")
            texts[style] = "".join(p + ("" if k == len(parts) - 1 else ("\t", "\n", " \r\n")[k % 3]) for k, p in enumerate(parts))
        else:
            texts[style] = F.render(tree, style)
    wants = [F.evaluate(tree, env_of(k)) for k in range(len(ENVS))]
    acc.traces += 1
    nontrivial = F.size(tree) >= 2 and any(math.isfinite(w) for w in wants)
    loaded = []
    for style in STYLES:
        text = texts[style]
        case = {"formula": text, "style": style, "tokens": F.tokens(tree, "minimal") if flat is None else flat,
                "postfix": want_postfix, "family": family}
        acc.transitions += 1
        try:
            term = fl.Function.create("f", text, ctx.engine)
        except Exception as ex:  # noqa: BLE001
            acc.violate("valid-rejected", {"style": style, "error": type(ex).__name__}, case, "accepted",
                        f"{type(ex).__name__}: {ex}", f"well-formed formula rejected ({style}): {text!r}: {str(ex)[:100]}")
            continue
        got_postfix = term.root.postfix()
        if got_postfix != want_postfix:
            acc.violate("postfix", {"style": style}, case, want_postfix, got_postfix,
                        f"{text!r} ({style}) parsed as {got_postfix!r}, the table says {want_postfix!r}")
            continue
        loaded.append((style, text, term, case))
    if loaded:
        # re-configuring an already loaded term must load the new formula (and reject nothing that create() accepts)
        style, text, _, case = loaded[0]
        try:
            ctx.reused.configure(text)
            got_pf = ctx.reused.root.postfix()
            got_v = float(impl_eval(ctx, ctx.reused, env_of(1)))
        except Exception as ex:  # noqa: BLE001
            got_pf, got_v = f"{type(ex).__name__}: {ex}", NAN
        acc.transitions += 1
        if got_pf != want_postfix or not close(got_v, wants[1], 1e-12, 1e-9):
            acc.violate("reconfigure", {}, case, [want_postfix, wants[1]], [got_pf, got_v],
                        f"configure({text!r}) on a loaded term gives postfix {got_pf!r} / value {got_v!r}, expected {want_postfix!r} / {wants[1]!r}")
    for n, (style, text, term, case) in enumerate(loaded):
        ks = range(len(ENVS)) if n == 0 else [0]
        for k in ks:
            env = env_of(k)
            acc.case((text, k), nontrivial=nontrivial)
            try:
                got = float(impl_eval(ctx, term, env))
            except Exception as ex:  # noqa: BLE001
                acc.violate("evaluation-raises", {"error": type(ex).__name__, "mode": "scalar"}, {**case, "env": env},
                            wants[k], f"{type(ex).__name__}: {ex}", f"{text!r} at {env}: {type(ex).__name__}: {str(ex)[:100]}")
                continue
            acc.transitions += 1
            if not close(got, wants[k], 1e-12, 1e-9):
                acc.violate("value", {"family": family}, {**case, "env": env}, wants[k], got,
                            f"{text!r} at {env} = {got!r}, ordinary mathematics gives {wants[k]!r}")
                continue
            if n == 0 and k == 0:  # a Function's value is the formula's value whatever the term's height attribute says
                term.height = 0.5
                got_h = float(impl_eval(ctx, term, env))
                term.height = 1.0
                if not close(got_h, got, 0.0, 0.0):
                    acc.violate("value", {"family": family, "height": True}, {**case, "env": env}, got, got_h,
                                f"{text!r} at {env} = {got_h!r} once the term's height is 0.5, {got!r} with height 1")
            rpn = F.evaluate_rpn(got_postfix_of(term), env)
            if not close(rpn, got, 1e-12, 1e-9):
                acc.violate("rpn", {}, {**case, "env": env}, got, rpn, f"postfix {got_postfix_of(term)!r} evaluates to {rpn!r}, the tree to {got!r}")
        if n == 0:
            # arrays are evaluated elementwise
            env = {"x": np.array([e[0] for e in ENVS]), "y": np.array([e[1] for e in ENVS]), "i": np.array([e[2] for e in ENVS])}
            acc.case((text, "array"), nontrivial=nontrivial)
            keep = {k: v.copy() for k, v in env.items()}
            try:
                got = impl_eval(ctx, term, env)
                got2 = impl_eval(ctx, term, env)
                if not np.array_equal(got, got2, equal_nan=True) or any(not np.array_equal(env[k], keep[k]) for k in env):
                    acc.violate("not-repeatable", {}, {**case, "env": "array"}, "same values, operands untouched", "differ",
                                f"{text!r}: a second evaluation differs or the operand arrays were modified")
                    continue
                got = np.broadcast_to(got, (len(ENVS),)) if got.ndim == 0 else got
                g = [float(v) for v in got]
            except Exception as ex:  # noqa: BLE001
                acc.violate("evaluation-raises", {"error": type(ex).__name__, "mode": "array"}, {**case, "env": "array"},
                            wants, f"{type(ex).__name__}: {ex}", f"{text!r} on arrays: {type(ex).__name__}: {str(ex)[:100]}")
                continue
            acc.transitions += 1
            if len(g) != len(wants) or not all(close(a, b, 1e-12, 1e-9) for a, b in zip(g, wants)):
                acc.violate("array-value", {"family": family}, {**case, "env": "array"}, wants, g,
                            f"{text!r} on arrays = {g}, elementwise mathematics gives {wants}")


def got_postfix_of(term) -> str:
    return term.root.postfix()


def check_own_variables(acc: Acc, ctx: Ctx) -> None:
    """`the term's own variables`: two terms built from one dictionary must not share it, nor keep the caller's object."""
    params = {"y": 3.0, "k": 2.0}
    f = fl.Function("f", "y ^ k", ctx.engine, variables=params, load=True)
    g = fl.Function("g", "y ^ k - 0.500", ctx.engine, variables=params, load=True)
    case = {"formula": "y ^ k", "family": "variables", "tokens": ["y", "^", "k"], "postfix": "y k ^"}
    acc.case("own-variables", nontrivial=True)
    acc.transitions += 4
    f.variables["k"] = 3.0
    params["y"] = 10.0
    vf, vg = float(f.membership(0.0)), float(g.membership(0.0))
    if vf != 27.0 or vg != 8.5:
        acc.violate("shared-variables", {}, case, [27.0, 8.5], [vf, vg], f"terms built from one variables dict are not independent: f={vf}, g={vg}")
    f.unload()
    try:
        vg = float(g.membership(0.0))
    except Exception as ex:  # noqa: BLE001
        vg = f"{type(ex).__name__}: {ex}"
    if vg != 8.5:
        acc.violate("shared-variables", {}, case, 8.5, vg, f"unloading one term changed another: g={vg}")


def check_name_clashes(acc: Acc, ctx: Ctx) -> None:
    """`x` is reserved, and a term's own variables may not shadow engine variables: ValueError, never a silent pick."""
    case = {"formula": "x + i", "family": "variables", "tokens": ["x", "+", "i"], "postfix": "x i +"}
    ctx.iv.value = 0.5
    scenarios = {
        "own-variable-named-x": lambda: fl.Function("f", "x + 1.000", ctx.engine, variables={"x": 2.0}, load=True).membership(1.0),
        "own-variable-shadows-engine-variable": lambda: fl.Function("f", "x + i", ctx.engine, variables={"i": 2.0}, load=True).membership(1.0),
        "engine-variable-named-x": lambda: fl.Function("f", "x + 1.000", fl.Engine("e", input_variables=[fl.InputVariable("x")]), load=True).membership(1.0),
    }
    for name, fn in scenarios.items():
        acc.case(name, nontrivial=True)
        acc.transitions += 1
        try:
            got = repr(fn())
        except ValueError:
            continue
        except Exception as ex:  # noqa: BLE001
            got = f"{type(ex).__name__}: {ex}"
        acc.violate("name-clash-not-refused", {"scenario": name}, case, "ValueError", got, f"{name}: expected ValueError, got {got}")
    # without an engine the formula sees x and the term's own variables only
    acc.case("no-engine", nontrivial=True)
    got = float(fl.Function("f", "x * k", variables={"k": 3.0}, load=True).membership(2.0))
    if got != 6.0:
        acc.violate("value", {"family": "variables"}, case, 6.0, got, "a Function without an engine mis-evaluates x * k")


def check_comparisons(acc: Acc, ctx: Ctx) -> None:
    """The six comparison functions are EXACT comparisons (NaN equal to NaN): all pairs over a near-tie lattice."""
    inf = float("inf")
    lattice = [1.0, 1.0 - 2.0**-53, 1.0 + 2.0**-52, 1.0 - 1e-9, 1.0 + 1e-9, 1.0 - 1e-6, 1.0 + 1e-6, 1.0 - 2.0**-12, 1.0 + 2.0**-12,
               0.999, 1.001, 0.0, -0.0, 5e-324, 1e-9, -1e-9, 1e6, 1e6 + 1.0, NAN, inf, -inf]
    same_val = lambda a, b: a == b or (a != a and b != b)  # noqa: E731
    meaning = {"eq": lambda a, b: same_val(a, b), "neq": lambda a, b: not same_val(a, b), "gt": lambda a, b: a > b, "lt": lambda a, b: a < b,
               "ge": lambda a, b: a >= b or same_val(a, b), "le": lambda a, b: a <= b or same_val(a, b)}
    A, B = np.meshgrid(np.array(lattice), np.array(lattice), indexing="ij")
    for name, fn in meaning.items():
        term = fl.Function.create("f", f"{name} ( x , y )", ctx.engine)
        term.variables = {"y": B.ravel()}
        got_arr = np.asarray(term.membership(A.ravel()), dtype=float)
        for k, (a, b) in enumerate(zip(A.ravel(), B.ravel())):
            term.variables = {"y": float(b)}
            got = float(term.membership(float(a)))
            want = 1.0 if fn(float(a), float(b)) else 0.0
            acc.transitions += 1
            acc.case(("compare", name, k), nontrivial=a == a and b == b and a != b and abs(a - b) < 1e-2)
            if got != want or float(got_arr[k]) != want:
                acc.violate("value", {"family": "comparison", "function": name}, {"formula": f"{name} ( x , y )", "family": "comparison", "x": float(a), "y": float(b)},
                            want, [got, float(got_arr[k])], f"{name}({float(a)!r}, {float(b)!r}) = {got} (array element {float(got_arr[k])}), the exact comparison gives {want}")
                break


def check_min_max(acc: Acc, ctx: Ctx) -> None:
    """min / max over all pairs of the near-tie lattice (incl. NaN, +-inf, signed zeros): the smaller / larger operand,
    NaN as soon as one operand is NaN (like every arithmetic operator) - float calls and one array call."""
    inf = float("inf")
    lattice = [1.0, 1.0 - 2.0**-53, 1.0 + 2.0**-52, 1.0 - 1e-9, 0.999, 1.001, 0.0, -0.0, 5e-324, -1e-9, 1e6, -2.5, NAN, inf, -inf]
    A, B = np.meshgrid(np.array(lattice), np.array(lattice), indexing="ij")
    same_val = lambda a, b: a == b or (a != a and b != b)  # noqa: E731
    for name, ref in (("min", F.FUNCTIONS["min"]), ("max", F.FUNCTIONS["max"])):
        term = fl.Function.create("f", f"{name} ( x , y )", ctx.engine)
        term.variables = {"y": B.ravel()}
        got_arr = np.asarray(term.membership(A.ravel()), dtype=float)
        for k, (a, b) in enumerate(zip(A.ravel(), B.ravel())):
            term.variables = {"y": float(b)}
            got = float(term.membership(float(a)))
            want = ref(float(a), float(b))
            acc.transitions += 1
            acc.case(("minmax", name, k), nontrivial=(a != a) != (b != b) or (a == a and b == b and a != b))
            if not same_val(got, want) or not same_val(float(got_arr[k]), want):
                acc.violate("value", {"family": "minmax", "function": name}, {"formula": f"{name} ( x , y )", "family": "minmax", "x": float(a), "y": float(b)},
                            want, [got, float(got_arr[k])], f"{name}({float(a)!r}, {float(b)!r}) = {got} (array element {float(got_arr[k])}), expected {want}")
                break


def check_construction_paths(acc: Acc, ctx: Ctx) -> None:
    """`variables resolve to the engine's current input/output values` for Function terms of INPUT and OUTPUT variables of
    engines obtained through every construction path (constructor, FLL import, copy, Python export)."""
    def make():
        return fl.Engine(
            "paths",
            input_variables=[fl.InputVariable("a", minimum=-10.0, maximum=10.0, terms=[fl.Function("fa", "2.000 * b + x")]),
                             fl.InputVariable("b", minimum=-10.0, maximum=10.0, terms=[fl.Function("fb", "a ^ 2.000 - o")])],
            output_variables=[fl.OutputVariable("o", minimum=-10.0, maximum=10.0, terms=[fl.Function("fo", "a + b * x")])])

    def python_rebuilt():
        ns: dict = {}
        exec(fl.representation.import_statement(), ns)  # noqa: S102
        return eval(repr(make()), ns)  # noqa: S307

    paths = {
        "constructor": make,
        "fll-import": lambda: fl.FllImporter().from_string(fl.FllExporter().to_string(make())),
        "copy": lambda: make().copy(),
        "copy-of-import": lambda: fl.FllImporter().from_string(fl.FllExporter().to_string(make())).copy(),
        "python-export": python_rebuilt,
        "terms-added-later": lambda: _added_later(),
    }

    def _added_later():
        e = fl.Engine("paths", input_variables=[fl.InputVariable("a", minimum=-10.0, maximum=10.0), fl.InputVariable("b", minimum=-10.0, maximum=10.0)],
                      output_variables=[fl.OutputVariable("o", minimum=-10.0, maximum=10.0)])
        e.input_variables[0].terms.append(fl.Function.create("fa", "2.000 * b + x", e))
        e.input_variables[1].terms.append(fl.Function.create("fb", "a ^ 2.000 - o", e))
        e.output_variables[0].terms.append(fl.Function.create("fo", "a + b * x", e))
        return e

    for name, build in paths.items():
        case = {"formula": "2.000 * b + x", "family": "paths", "path": name}
        acc.case(("paths", name), nontrivial=True)
        try:
            e = build()
            for a, b, o, x in ((0.5, 2.0, 1.0, 3.0), (1.0, -1.0, 0.25, 3.0), (np.array([0.5, 1.0]), np.array([2.0, -1.0]), 1.0, 3.0)):
                e.input_variables[0].value, e.input_variables[1].value = a, b
                e.output_variables[0].value = o
                want = {"fa": 2.0 * np.asarray(b) + x, "fb": np.asarray(a) ** 2.0 - o, "fo": np.asarray(a) + np.asarray(b) * x}
                for v in e.variables:
                    for t in v.terms:
                        got = np.asarray(t.membership(x), dtype=float)
                        acc.transitions += 1
                        if got.shape != np.shape(want[t.name]) or not np.array_equal(got, want[t.name]):
                            acc.violate("engine-variables", {"path": name, "variable": v.name}, case, np.asarray(want[t.name]).tolist(), got.tolist(),
                                        f"[{name}] term {t.name} of {v.name} evaluates to {got.tolist()} with a={a}, b={b}, o={o}, x={x}; expected {np.asarray(want[t.name]).tolist()}")
        except Exception as ex:  # noqa: BLE001
            acc.violate("engine-variables", {"path": name, "error": type(ex).__name__}, case, "values", f"{type(ex).__name__}: {ex}",
                        f"[{name}] a Function term that names engine variables cannot be evaluated: {type(ex).__name__}: {str(ex)[:100]}")


def ill_formed_variants(toks: list[str]):
    for i, t in enumerate(toks):
        is_operand = t not in F.PREC and t not in ("(", ")", ",") and (t not in F.ARITY or F.ARITY[t] == 0)
        if is_operand:
            yield "delete-operand", toks[:i] + toks[i + 1:]
        if t in F.ARITY and F.ARITY[t] > 0:
            depth, j = 0, i + 1
            while j < len(toks):
                if toks[j] == "(":
                    depth += 1
                elif toks[j] == ")":
                    depth -= 1
                    if depth == 0:
                        break
                j += 1
            yield "add-argument", toks[:j] + [",", "2.000"] + toks[j:]
            if F.ARITY[t] == 2:
                d, k = 0, i + 1
                while k < j:
                    if toks[k] == "(":
                        d += 1
                    elif toks[k] == ")":
                        d -= 1
                    elif toks[k] == "," and d == 1:
                        yield "remove-argument", toks[:k] + toks[j:]
                        break
                    k += 1
        if t in ("(", ")"):
            yield "remove-parenthesis", toks[:i] + toks[i + 1:]
    yield "add-parenthesis", ["("] + toks
    yield "add-parenthesis", toks + [")"]


def run_ill_formed(acc: Acc, ctx: Ctx, tree) -> None:
    toks = F.tokens(tree, "minimal")
    for edit, new in ill_formed_variants(toks):
        text = " ".join(new)
        case = {"formula": text, "edit": edit, "family": "ill-formed"}
        acc.case((text, edit), nontrivial=True)
        acc.transitions += 1
        acc.cls(f"illformed_{edit}")
        try:
            fl.Function.create("f", text, ctx.engine)
        except ALLOWED_REJECTIONS:
            continue
        except Exception as ex:  # noqa: BLE001
            acc.violate("ill-formed-internal-error", {"error": type(ex).__name__, "edit": edit}, case, "SyntaxError",
                        f"{type(ex).__name__}: {ex}", f"ill-formed {text!r} ({edit}): internal {type(ex).__name__}")
            continue
        acc.violate("ill-formed-accepted", {"edit": edit}, case, "rejected", "accepted", f"ill-formed formula accepted ({edit}): {text!r}")


# ---------------------------------------------------------------------------------------------------------------------
def space_a():
    leaves = [X, Y, I_, N2, NH, N3, PI]
    for n in (0, 1, 2):
        yield from G.iter_trees(n, leaves, UN_OPS, BIN_OPS, ["sin", "abs"], ["pow", "atan2", "min", "gt"])


def space_b(tier: str):
    leaves = [X, N2] if tier == "quick" else [X, Y, N2]
    yield from G.iter_trees(3, leaves, UN_OPS, BIN_OPS, ["abs"], ["pow", "gt"])


def space_c():
    leaves = [X, Y, N2, NH]
    for f, arity in F.ARITY.items():
        if arity == 0:
            calls = [("call", f, [])]
        elif arity == 1:
            calls = [("call", f, [a]) for a in leaves]
        else:
            calls = [("call", f, [a, b]) for a, b in ((X, Y), (Y, N2), (NH, X), (X, X), (N2, NH))]
        for c in calls:
            yield c
            for op in UN_OPS:
                yield ("un", op, c)
            for op in BIN_OPS:
                for leaf in (X, N2):
                    yield ("bin", op, c, leaf)
                    yield ("bin", op, leaf, c)
            for g in ("sin", "abs"):
                yield ("call", g, [c])
            for g in ("pow", "atan2", "min", "gt"):
                yield ("call", g, [c, Y])
                yield ("call", g, [NH, c])


def space_d(tier: str):
    operands = ["x", "2.000", "y", "0.500", "i"]
    for toks in G.chains(operands, BIN_OPS, 4):
        yield toks
    n_un = 3 if tier == "quick" else 4
    for toks in G.chains(operands, BIN_OPS, n_un):
        for pos in range(0, len(toks), 2):
            for u in ("~", ".-", ".+"):
                yield toks[:pos] + [u] + toks[pos:]


def plan(tier: str, seed: int):
    return [("a", p, 12) for p in range(12)] + [("b", p, 16) for p in range(16)] + [("c", p, 2) for p in range(2)] + \
           [("d", p, 8) for p in range(8)]


def run_shard(tier: str, seed: int, shard):
    family, part, parts = shard
    acc = Acc(ID)
    ctx = Ctx()
    if family in ("a", "b", "c"):
        space = {"a": space_a, "b": lambda: space_b(tier), "c": space_c}[family]()
        for idx, tree in enumerate(space):
            if idx % parts != part:
                continue
            if not F.well_typed(tree):
                acc.cls("ill_typed_skipped")
                continue
            acc.states += 1
            acc.cls(f"trees_{family}")
            acc.guard({"formula": F.render(tree), "family": family}, run_tree, acc, ctx, tree, family)
            if family in ("a", "c") and (family == "c" or F.size(tree) <= 1 or idx % 8 == part % 8):
                acc.guard({"formula": F.render(tree), "family": "ill-formed"}, run_ill_formed, acc, ctx, tree)
    else:
        for idx, toks in enumerate(space_d(tier)):
            if idx % parts != part:
                continue
            tree = F.parse(toks)
            if not F.well_typed(tree):
                acc.cls("ill_typed_skipped")
                continue
            acc.states += 1
            acc.cls("chains")
            acc.guard({"formula": " ".join(toks), "family": "d"}, run_tree, acc, ctx, tree, "d", toks)
            if idx % 16 == part:
                acc.guard({"formula": " ".join(toks), "family": "ill-formed"}, run_ill_formed, acc, ctx, tree)
    if shard == ("c", 0, 2):
        acc.guard({"formula": "y ^ k", "family": "variables"}, check_own_variables, acc, ctx)
        acc.guard({"formula": "x + i", "family": "variables"}, check_name_clashes, acc, ctx)
        acc.guard({"formula": "2.000 * b + x", "family": "paths"}, check_construction_paths, acc, ctx)
        acc.guard({"formula": "ge ( x , y )", "family": "comparison"}, check_comparisons, acc, ctx)
        acc.guard({"formula": "max ( x , y )", "family": "minmax"}, check_min_max, acc, ctx)
    if shard == ("d", 0, 8):
        toks = ["x", "-", "2.000", "^", ".-", "y", "^", "0.500", "%", "i"]
        t = F.parse(toks)
        acc.sample({"formula": " ".join(toks), "postfix": F.postfix(t), "full": F.render(t, "full"),
                    "value_at_env0": F.evaluate(t, env_of(0))}, 1)
    return acc.result()


def summarize(tier: str, seed: int, merged: dict) -> dict:
    c = merged["classes"]
    need = ["trees_a", "trees_b", "trees_c", "chains", "illformed_delete-operand", "illformed_add-argument",
            "illformed_remove-parenthesis"]
    vac = [f"outcome class {k} is empty" for k in need if not c.get(k)]
    return {
        "rule": (
            "(a) all well-typed trees with <= 2 operator/function nodes over leaves {x, y, i, 2, 0.5, 3.25, pi}, 4 unary + 9 "
            "binary operators, sin/abs, pow/atan2/min/gt; (b) all 3-node trees over leaves "
            f"{'{x, 2}' if tier == 'quick' else '{x, y, 2}'}, 13 operators, abs, pow, gt; (c) each of the 34 functions/constants "
            "alone, under each unary operator, on each side of each binary operator and as argument of each signature "
            "class; (d) all chains of 4 binary operators over 5 operands and chains with one unary prefix at every operand "
            f"position ({3 if tier == 'quick' else 4} operators); 3 renderings; 4 scalar assignments + arrays; ill-formed "
            "variants of (a, subsampled 1/8 for 2-node trees), (c), (d, 1/16); min / max over all pairs of a 15-value lattice (NaN, infinities, signed zeros, near ties); own-variable sharing, name clashes, and Function terms naming engine "
            "variables in engines built through 6 construction paths. states = trees, transitions = loads + "
            "evaluations, traces = reference evaluations; non-trivial = >= 2 nodes and a finite value"
        ),
        "exhaustive": True,
        "vacuity_errors": vac,
        "assumptions": [
            "numeric literals are decimals exact at 3 decimals (exponent notation is outside the tokenizer's design)",
            "a lower-precedence unary directly under a higher-precedence unary is printed with parentheses (`~ ( .- x )`)",
            "value tolerance 1e-12 + 1e-9 relative between numpy and math implementations of the same function",
        ],
    }


def replay(case: dict):
    acc = Acc(ID)
    ctx = Ctx()
    if case.get("family") == "ill-formed":
        text = case["formula"]
        try:
            fl.Function.create("f", text, ctx.engine)
            acc.violate("ill-formed-accepted", {"edit": case.get("edit")}, case, "rejected", "accepted", f"accepted {text!r}")
        except ALLOWED_REJECTIONS:
            pass
        except Exception as ex:  # noqa: BLE001
            acc.violate("ill-formed-internal-error", {"error": type(ex).__name__}, case, "SyntaxError", repr(ex), "internal")
        return acc.violations
    if case.get("family") == "comparison":
        acc.guard(case, check_comparisons, acc, ctx)
        return acc.violations
    if case.get("family") == "minmax":
        acc.guard(case, check_min_max, acc, ctx)
        return acc.violations
    if case.get("family") == "paths":
        acc.guard(case, check_construction_paths, acc, ctx)
        return acc.violations
    toks = case["tokens"]
    tree = F.parse(toks)
    acc.guard(case, run_tree, acc, ctx, tree, case.get("family", "replay"), toks if case.get("family") == "d" else None)
    return acc.violations

"""C15 - Python export reconstructs an identical engine.

K4 deviation-bounded enumeration: the five base engines, every single-field deviation of C14's alphabets, and the
numeric deviations over arbitrary doubles (1/3, 0.1+0.2, 1e-300, 1e300, -0.0, 5e-324, 2^53+1, +-inf, NaN), quotes and
backslashes in descriptions, a disabled rule; x alias settings {fl, '', '*', custom} x {repr, encapsulated} x
{unformatted; black-formatted for the base engines}.
Driver: in a fresh namespace exec(representation.import_statement()), then eval(repr(E)) or exec the encapsulated code.
Oracle: repr(E') == repr(E), fll(E') == fll(E), bit-identical outputs on an input grid; the same for each component
on its own (terms, variables, rule blocks, rules, norms, hedges, defuzzifiers, activations, Activated, Aggregated).
"""

from __future__ import annotations

import itertools
import math

from ..explore import Acc
from ..gen import deviations as D
from ..gen import recipes as R
from ..lib import fl, reset_settings
from ..oracle import same
from . import c01, c13, c14

ID = "C15"
LEVEL = "model_checking"
NAN, INF = float("nan"), float("inf")
ALIASES = ["fl", "", "*", "zz"]
SPECIAL = [1 / 3, 0.1 + 0.2, 1e-300, 1e300, -0.0, 5e-324, 2.0**53 + 1, INF, -INF, NAN]


def numeric_deviations(base: dict):
    out = []
    n_out = len(base["outputs"])
    t0 = base["inputs"][0]["terms"][0]
    for v in SPECIAL:
        out.append(("number", f"in0.term0.param1={v!r}", lambda r, v=v: r["inputs"][0]["terms"][0]["params"].__setitem__(1, v)))
        out.append(("number", f"in0.min={v!r}", D._set(("inputs", 0, "min"), v)))
        out.append(("number", f"out0.max={v!r}", D._set(("outputs", 0, "max"), v)))
        out.append(("number", f"out{n_out - 1}.default={v!r}", D._set(("outputs", n_out - 1, "default"), v)))
        out.append(("number", f"block0.activation=First(2,{v!r})", D._set(("blocks", 0, "activation"), ["First", 2, v])))
        out.append(("number", f"block0.activation=Threshold(>=,{v!r})", D._set(("blocks", 0, "activation"), ["Threshold", ">=", v])))
        if math.isfinite(v) and 0 < abs(v) <= 1 and t0["cls"] == "Triangle":
            out.append(("number", f"in0.term0.height={v!r}", D._set(("inputs", 0, "terms", 0, "height"), v)))
        out.append(("number", f"in1.term0=Gaussian({v!r},0.25)", D._set(("inputs", min(1, len(base["inputs"]) - 1), "terms", 0),
                                                                        R.shape("Gaussian", base["inputs"][min(1, len(base["inputs"]) - 1)]["terms"][0]["name"], [v, 0.25]))))
        out.append(("number", f"in0.term1=Discrete(0,{v!r},...)", D._set(("inputs", 0, "terms", 1),
                                                                        R.shape("Discrete", base["inputs"][0]["terms"][1]["name"], [0.0, v, 1.0, 0.5], 0.75))))
    for h in (2.0, 1.5, 1.0009, 1e-300):
        out.append(("number", f"in0.term0.height={h!r}", D._set(("inputs", 0, "terms", 0, "height"), h)))
        out.append(("number", f"out0.term1.height={h!r}", lambda r, h=h: r["outputs"][0]["terms"][-1].__setitem__("height", h)))
    # sizes beyond reprlib's default limits (6 list items, 4 dict items, 30 characters, 40 digits)
    def many_terms(r):
        r["inputs"][0]["terms"] += [R.shape("Triangle", f"t{k}", [k / 8, k / 8 + 0.125, k / 8 + 0.25]) for k in range(9)]
    out.append(("size", "in0.terms+=9", many_terms))
    def many_rules(r):
        base_rule = r["blocks"][0]["rules"][0]
        r["blocks"][0]["rules"] += [dict(base_rule, weight=f"0.{k}00") for k in range(1, 9)]
    out.append(("size", "block0.rules+=8", many_rules))
    out.append(("size", "in0.term1=Discrete(12 pairs)", D._set(("inputs", 0, "terms", 1), R.shape(
        "Discrete", base["inputs"][0]["terms"][1]["name"], [v for k in range(12) for v in (k / 11, (k % 3) / 2)], 0.5))))
    out.append(("size", "engine.description=long", D._set(("description",), "a long description " * 20)))
    out.append(("size", "out0.description=long", D._set(("outputs", 0, "description"), "0123456789" * 12)))
    # the boundary count 0 of the counting activation methods (the original receives it by assignment, see run_recipe)
    for act in (["Highest", 0], ["Lowest", 0], ["First", 0, 0.0], ["Last", 0, 0.0]):
        out.append(("activation", f"block0.activation={act}", D._set(("blocks", 0, "activation"), list(act))))
    for text in (" ", "\t ", "  two  "):  # descriptions made of / wrapped in white space are kept as they are
        out.append(("quotes", f"in0.description={text!r}", D._set(("inputs", 0, "description"), text)))
        out.append(("quotes", f"out0.description={text!r}", D._set(("outputs", 0, "description"), text)))
        out.append(("quotes", f"block0.description={text!r}", D._set(("blocks", 0, "description"), text)))
    for text in ("it's", 'say "hi"', "back\\slash", "tab\there", "#hash: colon"):
        out.append(("quotes", f"engine.description={text!r}", D._set(("description",), text)))
        out.append(("quotes", f"in0.description={text!r}", D._set(("inputs", 0, "description"), text)))
        out.append(("quotes", f"block0.description={text!r}", D._set(("blocks", 0, "description"), text)))
    for b in range(len(base["blocks"])):
        for k in range(len(base["blocks"][b]["rules"])):
            out.append(("disabled-rule", f"block{b}.rule{k}.enabled=False", D._set(("blocks", b, "rules", k, "enabled"), False)))
            # ... under activation methods that count / normalise over the loaded rules
            for act in (["Proportional"], ["First", 1, 0.0], ["Highest", 1]):
                def both(r, b=b, k=k, act=act):
                    r["blocks"][b]["rules"][k]["enabled"] = False
                    r["blocks"][b]["activation"] = list(act)
                out.append(("disabled-rule", f"block{b}.rule{k}.enabled=False+{act[0]}", both))
    return out


def rebuild(code: str, import_stmt: str, mode: str, class_name: str | None):
    ns: dict = {}
    if mode == "repr":
        exec(import_stmt, ns)  # noqa: S102
        return eval(code, ns)  # noqa: S307
    exec(code, ns)  # noqa: S102  (encapsulated code is self-contained: it carries its own import statement)
    if class_name is not None:
        return ns[class_name]().engine
    return ns["create"]()


def weights_ok(recipe) -> bool:
    for kind, v in c14.numbers_of(recipe):
        if kind == "height" and v != 1.0 and abs(v - 1.0) <= 1e-3:
            return False
    for b in recipe["blocks"]:
        for r in b["rules"]:
            if r.get("weight") and not c14.printable(float(r["weight"]), 3):
                return False
    return True


EXPORTERS: dict = {}


def exporter(formatted: bool, encapsulated: bool):
    """Long-lived exporter objects: created once per worker (under whatever alias was in force then), used under every alias."""
    key = (formatted, encapsulated)
    if key not in EXPORTERS:
        EXPORTERS[key] = fl.PythonExporter(formatted=formatted, encapsulated=encapsulated)
    return EXPORTERS[key]


def stepwise_engine():
    """An engine assembled step by step (never through Engine(...)) whose Function terms carry their own variables."""
    e = fl.Engine("stepwise", "assembled step by step")
    a = fl.InputVariable("a", "", True, 0.0, 1.0, False)
    a.terms.append(fl.Triangle("lo", -0.5, 0.0, 1.0))
    e.input_variables.append(a)
    a.terms.append(fl.Function("fin", "scale * x", engine=e, variables={"scale": 0.5}, load=True))
    o = fl.OutputVariable("o", "", True, -5.0, 5.0, False, False, NAN, None, fl.WeightedAverage("TakagiSugeno"))
    e.output_variables.append(o)
    o.terms.append(fl.Function("f", "gain * a + offset", engine=e, variables={"gain": 2.0, "offset": 0.25}, load=True))
    o.terms.append(fl.Constant("k", -1.0))
    rb = fl.RuleBlock("rb", "", True, None, None, None, fl.General())
    rb.rules.append(fl.Rule.create("if a is lo then o is f"))
    rb.rules.append(fl.Rule.create("if a is not lo then o is k with 0.500"))
    e.rule_blocks.append(rb)
    rb.load_rules(e)
    return e


def reused_engine():
    """An engine built from the variables and rule blocks of an EARLIER engine (Linear / Function terms were attached to that one)."""
    import copy
    prototype = R.build(c13.engine_recipes()[2])  # Takagi-Sugeno with a Linear and a Function term
    inputs = [copy.deepcopy(v) for v in prototype.input_variables]  # its own input variables (the prototype's stay unset) ...
    blocks = [fl.RuleBlock(b.name, b.description, b.enabled, b.conjunction, b.disjunction, b.implication, b.activation,
                           [fl.Rule.create(r.text) for r in b.rules]) for b in prototype.rule_blocks]
    return fl.Engine("product", "built from the output variables of another engine", inputs, prototype.output_variables, blocks)  # ... reused outputs


SPECIAL_ENGINES = {"stepwise": stepwise_engine, "reused": reused_engine}


def run_recipe(acc: Acc, group: str, label: str, recipe: dict, aliases, formatted_too: bool) -> None:
    if "special" in recipe:
        E = SPECIAL_ENGINES[recipe["special"]]()
    else:
        E = R.build(recipe, flags_by_assignment=True)  # the rebuilt engine E' goes through the constructors
        for rb, b in zip(E.rule_blocks, recipe["blocks"]):  # ... so the original's activation parameters are assigned
            a = b.get("activation") or ["General"]
            if a[0] in ("Highest", "Lowest", "First", "Last") and rb.activation is not None and type(rb.activation).__name__ == a[0]:
                rb.activation.rules = a[1]
                if len(a) > 2:
                    rb.activation.threshold = a[2]
    n_in = len(E.input_variables)
    base_outputs = None
    for alias, mode in itertools.product(aliases, ("repr", "encapsulated")):
        for formatted in ((False, True) if formatted_too else (False,)):
            case = {"label": label, "group": group, "alias": alias, "mode": mode, "formatted": formatted, "recipe": recipe}
            reset_settings()
            fl.settings.alias = alias
            try:
                acc.transitions += 1
                acc.case((label, alias, mode, formatted), nontrivial=True)
                import_stmt = fl.representation.import_statement()
                code = exporter(formatted, mode == "encapsulated").to_string(E)
                want_repr = repr(E)
                if repr(E) != want_repr:
                    acc.violate("not-repeatable", {"group": group}, case, want_repr[:120], "differs", f"[{label}]: repr of the same engine differs between two calls")
                    continue
                want_fll = fl.FllExporter().to_string(E)
                try:
                    E2 = rebuild(code, import_stmt, mode, fl.Op.pascal_case(E.name))
                except Exception as ex:  # noqa: BLE001
                    acc.violate("code-does-not-run", {"group": group, "alias": alias or "empty", "error": type(ex).__name__}, case,
                                "an engine", f"{type(ex).__name__}: {ex}",
                                f"[{label}] alias={alias!r} {mode}: generated code fails: {type(ex).__name__}: {str(ex)[:120]}")
                    continue
                got_repr, got_fll = repr(E2), fl.FllExporter().to_string(E2)
                acc.traces += 1
                if got_repr != want_repr:
                    i = next((k for k, (a, b) in enumerate(zip(want_repr, got_repr)) if a != b), min(len(want_repr), len(got_repr)))
                    acc.violate("repr-differs", {"group": group}, case, want_repr[max(0, i - 60):i + 60], got_repr[max(0, i - 60):i + 60],
                                f"[{label}] alias={alias!r} {mode}: repr of the rebuilt engine differs near ...{want_repr[max(0, i - 40):i + 20]!r}")
                    continue
                if got_fll != want_fll:
                    acc.violate("fll-differs", {"group": group}, case, "same FLL", "differs", f"[{label}] alias={alias!r} {mode}: FLL of the rebuilt engine differs")
                    continue
                if weights_ok(recipe):
                    reset_settings()
                    if base_outputs is None:
                        base_outputs = c14.outputs_on_grid(E, n_in)
                    o2 = c14.outputs_on_grid(E2, n_in)
                    acc.transitions += len(o2)
                    for k, (a, b) in enumerate(zip(base_outputs, o2)):
                        bad = (a != b) if (isinstance(a, str) or isinstance(b, str)) else not all(same(x, y) for x, y in zip(a, b))
                        if bad:
                            acc.violate("outputs", {"group": group}, {**case, "row": k}, a, b,
                                        f"[{label}] alias={alias!r} {mode}: rebuilt engine computes {b}, the original {a}")
                            break
            finally:
                reset_settings()


def components_of(engine):
    out = [("engine-variable", v) for v in engine.variables] + [("rule-block", b) for b in engine.rule_blocks]
    for v in engine.variables:
        out += [("term", t) for t in v.terms]
    for ov in engine.output_variables:
        out += [("defuzzifier", ov.defuzzifier), ("norm", ov.aggregation), ("aggregated", ov.fuzzy)]
        out += [("activated", a) for a in ov.fuzzy.terms]
    for b in engine.rule_blocks:
        out += [("norm", b.conjunction), ("norm", b.disjunction), ("norm", b.implication), ("activation", b.activation)]
        out += [("rule", r) for r in b.rules]
        for r in b.rules:
            out += [("antecedent", r.antecedent), ("consequent", r.consequent)]
    return [(k, c) for k, c in out if c is not None]


def standalone_components():
    out = [("norm", getattr(fl, n)()) for n in D.RN.TNORMS + D.RN.SNORMS]
    out += [("hedge", fl.settings.factory_manager.hedge.construct(h)) for h in ("any", "extremely", "not", "seldom", "somewhat", "very")]
    for d in ("Bisector", "Centroid", "SmallestOfMaximum", "MeanOfMaximum", "LargestOfMaximum"):
        out += [("defuzzifier", getattr(fl, d)()), ("defuzzifier", getattr(fl, d)(77))]
    for d in ("WeightedAverage", "WeightedSum"):
        out += [("defuzzifier", getattr(fl, d)(t)) for t in ("Automatic", "TakagiSugeno", "Tsukamoto")]
    out += [("activation", fl.General()), ("activation", fl.Proportional()), ("activation", fl.First(3, 1 / 3)), ("activation", fl.Last(2, 0.1 + 0.2)),
            ("activation", fl.Highest(2)), ("activation", fl.Lowest(3))]
    out += [("activation", fl.Threshold(c, t)) for c in ("<", "<=", "==", "!=", ">=", ">") for t in (0.0, 1 / 3, INF)]
    for cls, plist in D.SHAPE_PARAMS.items():
        for p in plist:
            for h in (1.0, 1 / 3, 0.9995):
                out.append(("term", R.make_term(R.shape(cls, "t", p, h))))
    for v in SPECIAL:
        out += [("term", fl.Constant("k", v)), ("term", fl.Linear("l", [v, 1.0])), ("term", fl.Triangle("t", v, 0.5, 1.0, 0.5)),
                ("term", fl.Gaussian("g", 0.0, v)), ("activated", fl.Activated(fl.Triangle("t", 0.0, 0.5, 1.0), v if v == v and 0 <= v <= 1 else 0.25, fl.Minimum()))]
    out.append(("term", fl.Function("f", "2*a + x", variables={"y": 1 / 3})))
    out.append(("term", fl.Function("f", "a + b + c + d + e + g", variables={k: (n + 1) / 7 for n, k in enumerate("abcdeg")})))
    out.append(("term", fl.Linear("l", [k / 7 for k in range(12)])))
    out.append(("term", fl.Discrete("d", fl.Discrete.to_xy([k / 11 for k in range(12)], [(k % 3) / 2 for k in range(12)]), 0.5)))
    out.append(("engine-variable", fl.InputVariable("v", "long " * 40, True, 0.0, 1.0, False, [fl.Triangle(f"t{k}", 0.0, k / 9, 1.0) for k in range(9)])))
    out += [("term", fl.Triangle("t", 0.0, 0.5, 1.0, h)) for h in (2.0, 1.5, 1.0009)]
    # NaN vertices and the two-argument short forms (the constructors rewrite the vertices)
    out += [("term", fl.Trapezoid("t", NAN, 1.0, NAN, 2.0)), ("term", fl.Trapezoid("t", NAN, 1.0)), ("term", fl.Trapezoid("t", 0.0, 1.0)),
            ("term", fl.Triangle("t", NAN, 1.0)), ("term", fl.Triangle("t", 0.0, 1.0)), ("term", fl.Triangle("t", NAN, NAN, 1.0)),
            ("term", fl.Trapezoid("t", 0.0, NAN, 1.0, NAN))]
    out.append(("aggregated", fl.Aggregated("o", -1.0, 1 / 3, fl.Maximum(), [fl.Activated(fl.Constant("k", 1.5), 0.5, fl.AlgebraicProduct())])))
    out.append(("aggregated", fl.Aggregated("o", NAN, INF, None, [])))
    # empty containers (falsy: they define __len__)
    out += [("engine-variable", fl.InputVariable("empty")), ("engine-variable", fl.OutputVariable("empty")), ("rule-block", fl.RuleBlock("empty")),
            ("rule-block", fl.RuleBlock("norules", "d", True, fl.Minimum(), fl.Maximum(), fl.AlgebraicProduct(), fl.General(), []))]
    # numpy single / half precision scalars as parameters (incl. infinite and NaN ones)
    import numpy as np
    for number in (np.float32, np.float16):
        out += [("engine-variable", fl.InputVariable("v", "", True, number(-INF), number(INF), False, [fl.Triangle("t", number(0.0), number(0.5), number(NAN), number(0.5))])),
                ("engine-variable", fl.OutputVariable("o", "", True, number(0.0), number(INF), False, False, number(NAN), None, None, [fl.Constant("k", number(NAN))])),
                ("term", fl.Gaussian("g", number(0.5), number(INF))), ("activation", fl.Threshold(">=", number(INF))), ("activation", fl.First(1, number(0.25)))]
    out.append(("engine-variable", fl.InputVariable("v", "it's a \"quoted\" \\ description", False, -INF, 1 / 3, True, [fl.Ramp("r", 1 / 3, 0.0)])))
    out.append(("engine-variable", fl.OutputVariable("o", "", True, 0.0, 1.0, True, True, 1 / 3, fl.AlgebraicSum(), fl.Centroid(33), [fl.Constant("k", NAN)])))
    return out


TYPED = {"engine-variable": "variable", "rule-block": "rule_block", "term": "term", "norm": "norm", "activation": "activation",
         "defuzzifier": "defuzzifier", "rule": "rule"}


def run_components(acc: Acc, comps, label: str) -> None:
    for alias in ALIASES:
        for mode in ("repr", "encapsulated"):
            reset_settings()
            fl.settings.alias = alias
            try:
                import_stmt = fl.representation.import_statement()
                for kind, c in comps:
                    if mode == "encapsulated" and kind in ("antecedent", "consequent", "hedge"):
                        continue
                    case = {"label": label, "group": "component", "alias": alias, "mode": mode, "component": kind, "repr": None}
                    acc.transitions += 1
                    acc.cls(f"component_{kind}")
                    try:
                        want = repr(c)
                        case["repr"] = want
                        acc.case((label, alias, mode, want), nontrivial=True)
                        exporter = fl.PythonExporter(formatted=False, encapsulated=(mode == "encapsulated"))
                        code = exporter.to_string(c)
                        c2 = rebuild(code, import_stmt, mode, None)
                        got = repr(c2)
                        typed = TYPED.get(kind)
                        if typed is not None and (kind != "engine-variable" or isinstance(c, (fl.InputVariable, fl.OutputVariable))):
                            method = typed if kind != "engine-variable" else ("input_variable" if isinstance(c, fl.InputVariable) else "output_variable")
                            code_t = getattr(exporter, method)(c)
                            c3 = rebuild(code_t, import_stmt, mode, None)
                            acc.transitions += 1
                            if repr(c3) != want or type(c3) is not type(c):
                                acc.violate("component-repr-differs", {"component": kind, "path": f"PythonExporter.{method}"}, case, want, repr(c3),
                                            f"{kind} alias={alias!r} {mode}: PythonExporter.{method}() code rebuilds {repr(c3)[:80]!r} instead of {want[:80]!r}")
                                continue
                    except Exception as ex:  # noqa: BLE001
                        acc.violate("component-code-does-not-run", {"component": kind, "alias": alias or "empty", "error": type(ex).__name__}, case,
                                    "a component", f"{type(ex).__name__}: {ex}", f"{kind} alias={alias!r} {mode}: {type(ex).__name__}: {str(ex)[:120]}")
                        continue
                    acc.traces += 1
                    if got != want or type(c2) is not type(c):
                        acc.violate("component-repr-differs", {"component": kind}, case, want, got, f"{kind} alias={alias!r} {mode}: {want!r} rebuilt as {got!r}")
            finally:
                reset_settings()


N_SHARDS = 48


def plan(tier: str, seed: int):
    return list(range(N_SHARDS))


def run_shard(tier: str, seed: int, shard: int):
    acc = Acc(ID)
    bs = c13.engine_recipes()[:5]
    idx = 0
    for bi, base in enumerate(bs):
        items = [("base", "base", ())]
        items += [(g, lbl, (fn,)) for g, lbl, fn in D.singles(base)]
        items += [(g, lbl, (fn,)) for g, lbl, fn in numeric_deviations(base)]
        for group, label, fns in items:
            idx += 1
            if idx % N_SHARDS != shard:
                continue
            recipe = D.apply(base, fns)
            acc.states += 1
            acc.cls(f"group_{group}")
            heavy = group in ("base", "number", "quotes", "disabled-rule", "size") or tier == "thorough"
            aliases = ALIASES if heavy else [ALIASES[idx % 4]]
            acc.guard({"label": label, "group": group, "recipe": recipe}, run_recipe, acc, group, f"{base['name']}:{label}", recipe, aliases, group == "base")
        if shard == bi + 8:
            E = R.build(base)
            for iv in E.input_variables:
                iv.value = 0.3
            E.process()
            acc.guard({"label": f"components:{base['name']}", "group": "component"}, run_components, acc, components_of(E), f"components:{base['name']}")
    for k, name in enumerate(SPECIAL_ENGINES):
        if shard == 21 + k:
            recipe = {"special": name, "name": name, "inputs": [], "outputs": [], "blocks": []}
            acc.states += 1
            acc.cls("group_special")
            acc.guard({"label": name, "group": "special", "recipe": recipe}, run_recipe, acc, "special", name, recipe, ALIASES, True)
    # engines whose outputs share one defuzzifier / operator instance (the rebuilt engine has one per variable)
    for k, (recipe, _) in enumerate(c01.space_g("quick")):
        if k % N_SHARDS == shard:
            acc.states += 1
            acc.cls("group_shared")
            acc.guard({"label": f"G{k}", "group": "shared", "recipe": recipe}, run_recipe, acc, "shared", f"G{k}:shared-instances", recipe, [ALIASES[k % 4]], False)
    if shard == 20:
        acc.guard({"label": "components:standalone", "group": "component"}, run_components, acc, standalone_components(), "components:standalone")
    if shard == 0:
        reset_settings()
        acc.sample({"component": "Triangle with 1/3", "repr": repr(fl.Triangle("t", 1 / 3, 0.5, 1.0, 0.5)), "aliases": ALIASES,
                    "modes": ["repr", "encapsulated"]}, 1)
    reset_settings()
    return acc.result()


def summarize(tier: str, seed: int, merged: dict) -> dict:
    c = merged["classes"]
    need = ["group_base", "group_number", "group_quotes", "group_disabled-rule", "group_term", "group_defuzzifier", "component_term",
            "component_norm", "component_hedge", "component_activated", "component_aggregated", "component_rule"]
    vac = [f"outcome class {k} is empty" for k in need if not c.get(k)]
    return {
        "rule": (
            "5 base engines + every single-field deviation of C14's alphabets + numeric deviations over "
            f"{[repr(v) for v in SPECIAL]} in term parameters, ranges, defaults, thresholds, heights, Discrete pairs + quotes/"
            "backslashes in descriptions + one disabled rule at every position (disabled AFTER loading; also under Proportional / First / Highest); x aliases ['fl', '', '*', 'zz'] (all four for "
            "the base/number/quotes/disabled-rule groups, one rotating alias for the rest in the quick tier) x {repr, "
            "encapsulated} (+ black-formatted for the base engines); every component of the processed base engines and a "
            "standalone component list (all norms, hedges, defuzzifiers, activations, every shape term with special doubles, "
            "Activated, Aggregated, variables, empty variables / rule blocks, numpy float32 / float16 scalar parameters) rebuilt on its own through "
            "to_string and through the typed PythonExporter methods. states = engines, transitions = code generations/executions, "
            "traces = rebuilt objects compared"
        ),
        "exhaustive": True,
        "vacuity_errors": vac,
        "assumptions": ["engine names are non-empty identifiers (the encapsulated export uses them as a class name)"],
    }


def replay(case: dict):
    acc = Acc(ID)
    if case.get("group") == "component":
        label = case["label"]
        if label == "components:standalone":
            comps = standalone_components()
        else:
            base = next(b for b in c13.engine_recipes() if b["name"] == label.split(":")[1])
            E = R.build(base)
            for iv in E.input_variables:
                iv.value = 0.3
            E.process()
            comps = components_of(E)
        acc.guard(case, run_components, acc, comps, label)
        return [v for v in acc.violations if v["case"].get("repr") == case.get("repr") and v["case"]["alias"] == case["alias"]]
    recipe = c01.fix_recipe(case["recipe"])
    EXPORTERS.clear()  # the long-lived exporters are created under the first alias again, as in the run
    aliases = ALIASES[: ALIASES.index(case["alias"]) + 1] if case.get("alias") in ALIASES else ALIASES
    acc.guard(case, run_recipe, acc, case["group"], case["label"], recipe, aliases, bool(case.get("formatted")))
    return acc.violations

"""C11 - Tsukamoto values invert the monotonic membership functions.

K1: the 6 monotonic terms x every valid parameter pair (both directions) x 4 heights x every y of a grid of
(0, h) including the points next to 0, h/2 and h; scalar and array entry points.  Intrinsic oracle mu(z(y)) = y,
finiteness and monotonicity of z, closed-form cross-check (vmc.ref.terms.tsukamoto); all other registered terms
must refuse.
"""

from __future__ import annotations

import math

import numpy as np

from ..explore import Acc
from ..gen import termspace as G
from ..lib import fl
from ..oracle import close, same
from ..ref import terms as R

ID = "C11"
LEVEL = "exploration"
CHUNKS = 4


def plan(tier: str, seed: int):
    return [(cls, c) for cls in G.MONOTONIC for c in range(CHUNKS)] + [("refuse", 0)]


def y_grid(h: float, tier: str, seed: int) -> list[float]:
    n = 256 if tier == "quick" else 4096
    ys = {h * i / n for i in range(1, n)}
    ys.update({h * 2.0**-1000, h * 2.0**-52, h * (1.0 - 2.0**-53), h * 2.0**-10, h * (1 - 2.0**-10)})
    half = h / 2.0
    lo = hi = half
    ys.add(half)
    ys.update((half - h * 2.0**-12, half + h * 2.0**-12, h * 2.0**-12, h * (1 - 2.0**-12)))  # within 1e-3 of the branch points
    for _ in range(3):
        lo = math.nextafter(lo, 0.0)
        hi = math.nextafter(hi, h)
        ys.update((lo, hi))
    from ..lib import seed_phase
    u = seed_phase(seed)
    ys.update(h * (k + u) / 16 for k in range(16))
    return sorted(y for y in ys if 0.0 < y < h)


def check_term(acc: Acc, cls: str, p, h: float, ys: list[float]) -> None:
    term = G.make_term(cls, "t", p, h)
    case0 = {"term": cls, "params": p, "height": h}
    if not term.is_monotonic():
        acc.violate("is_monotonic", {"term": cls}, case0, True, False, f"{cls} does not declare itself monotonic")
    arr = np.array(ys)
    z1 = term.tsukamoto(arr)
    z2 = term.tsukamoto(arr.reshape(1, -1))
    if not np.array_equal(arr, np.array(ys)):
        acc.violate("input-array-modified", {"term": cls}, {**case0, "y": ys[0]}, "y unchanged", "y overwritten",
                    f"{cls}.tsukamoto modifies the caller's array of degrees")
        return
    if np.shape(z1) != arr.shape or np.shape(z2) != (1, len(ys)):
        acc.violate("array-shape", {"term": cls}, case0, arr.shape, [np.shape(z1), np.shape(z2)], "shape not preserved")
        return
    # single / half precision degree arrays are the same degrees as their double-precision values
    for dtype in (np.float32, np.float16):
        narrow = arr.astype(dtype)
        wide = narrow.astype(np.float64)
        ok_rows = (wide > 0.0) & (wide < h)
        zn, zw = np.asarray(term.tsukamoto(narrow), dtype=float), np.asarray(term.tsukamoto(wide), dtype=float)
        scale = max(1.0, max(abs(v) for v in p if math.isfinite(v)))
        bad = ~np.isclose(zn, zw, rtol=0, atol=1e-12 * scale, equal_nan=True) & ok_rows if zn.shape == zw.shape else np.array([True])
        if bad.any():
            k = int(np.argmax(bad))
            acc.violate("array-kind", {"term": cls, "operand": np.dtype(dtype).name}, {**case0, "y": float(wide[k]) if zn.shape == zw.shape else ys[0]},
                        float(zw[k]) if zn.shape == zw.shape else list(zw.shape), float(zn[k]) if zn.shape == zw.shape else list(zn.shape),
                        f"{cls}{p} h={h}: tsukamoto of a {np.dtype(dtype).name} array differs from the same degrees in double precision")
            break
    back = term.membership(z1)
    d = R.direction(cls, p)
    scale = max(abs(v) for v in p) + 1.0
    prev = None
    for k, y in enumerate(ys):
        z = float(z1[k])
        acc.case((cls, tuple(p), h, y), nontrivial=True)
        case = {**case0, "y": y}
        zs = term.tsukamoto(y)
        if not (same(float(zs), z) and same(float(z2[0, k]), z)) or np.shape(zs) != ():
            acc.violate("array-vs-scalar", {"term": cls}, case, z, [float(zs), float(z2[0, k])], "entry points disagree")
        if not math.isfinite(z):
            acc.violate("finite", {"term": cls}, case, "finite", z, f"{cls}{p} h={h}: tsukamoto({y}) = {z!r}")
            continue
        mu = float(back[k])
        if not abs(mu - y) <= 1e-9 * h:
            acc.violate("inverse", {"term": cls}, case, y, mu,
                        f"{cls}{p} h={h}: membership(tsukamoto({y})) = {mu!r} (z = {z!r})")
        want = R.tsukamoto(cls, p, h, y)
        if not close(z, want, 1e-9 * scale, 1e-9):
            acc.violate("closed-form", {"term": cls}, case, want, z, f"{cls}{p} h={h}: tsukamoto({y}) = {z!r}, docstring gives {want!r}")
        if prev is not None and not (d * (z - prev[1]) >= -1e-12 * max(1.0, abs(z))):
            acc.violate("monotone", {"term": cls}, {**case, "y_prev": prev[0]}, f"direction {d}", [prev[1], z],
                        f"{cls}{p}: tsukamoto not monotone between y={prev[0]} and y={y}")
        prev = (y, z)


def check_refusals(acc: Acc, tier: str, seed: int) -> None:
    for cls in G.SHAPES + ["Constant"]:
        if cls in G.MONOTONIC:
            continue
        for p in G.param_sets(cls, "quick", seed)[:6]:
            term = G.make_term(cls, "t", p, 1.0)
            acc.case((cls, tuple(p)), nontrivial=True)
            acc.cls("refusals")
            case = {"term": cls, "params": p, "height": 1.0, "y": 0.5}
            if term.is_monotonic():
                acc.violate("is_monotonic", {"term": cls}, case, False, True, f"{cls} declares itself monotonic")
            for y in (0.5, np.array([0.25, 0.5])):
                try:
                    got = term.tsukamoto(y)
                except RuntimeError:
                    continue
                except Exception as ex:  # noqa: BLE001
                    got = f"{type(ex).__name__}: {ex}"
                acc.violate("refuse", {"term": cls}, case, "RuntimeError", got, f"{cls}.tsukamoto did not refuse")
    # the special wrapper terms: whatever they declare must match what they do
    ramp = fl.Ramp("r", 0.0, 1.0)
    for term in (fl.Activated(ramp, 0.5, fl.Minimum()), fl.Activated(fl.Triangle("t", 0.0, 0.5, 1.0), 0.5, None),
                 fl.Aggregated("a", 0.0, 1.0, fl.Maximum(), [fl.Activated(ramp, 0.5, fl.Minimum())])):
        acc.case((type(term).__name__, type(getattr(term, "term", None)).__name__), nontrivial=True)
        acc.cls("refusals")
        try:
            got = term.tsukamoto(0.25)
            refused = False
        except RuntimeError:
            got, refused = "RuntimeError", True
        except Exception as ex:  # noqa: BLE001
            got, refused = f"{type(ex).__name__}: {ex}", False
        if bool(term.is_monotonic()) == refused:
            acc.violate("declares-vs-does", {"term": type(term).__name__}, {"term": type(term).__name__, "params": [], "height": 1.0, "y": 0.25},
                        "monotonic terms invert, the others refuse", [bool(term.is_monotonic()), str(got)],
                        f"{type(term).__name__} declares is_monotonic()={term.is_monotonic()} but tsukamoto gives {got}")
    # degenerate instances of the monotonic classes (zero slope, zero width; parameters as Python numbers and as numpy
    # floats): what the INSTANCE declares must match what it does - monotonic: an answer without raising; not: a refusal
    for cls, p in (("Sigmoid", [0.5, 0.0]), ("Sigmoid", [0.5, -0.0]), ("Ramp", [0.5, 0.5]), ("Ramp", [0, 0]), ("SShape", [0.5, 0.5]),
                   ("ZShape", [0.5, 0.5]), ("Concave", [0.5, 0.5]), ("Arc", [0.5, 0.5])):
        for as_numpy in (False, True):
            term = getattr(fl, cls)("t", *[np.float64(v) if as_numpy else v for v in p])
            acc.case((cls, tuple(p), as_numpy, "degenerate"), nontrivial=True)
            acc.cls("refusals")
            for y in (0.5, np.array([0.25, 0.5])):
                try:
                    got = term.tsukamoto(y)
                    refused = False
                except RuntimeError:
                    got, refused = "RuntimeError", True
                except Exception as ex:  # noqa: BLE001
                    got, refused = f"{type(ex).__name__}: {ex}", None
                if refused is None or bool(term.is_monotonic()) == refused:
                    acc.violate("declares-vs-does", {"term": cls, "degenerate": True}, {"term": cls, "params": p, "height": 1.0, "y": 0.5},
                                "monotonic terms answer, the others refuse", [bool(term.is_monotonic()), str(got)],
                                f"{cls}{p} ({'numpy' if as_numpy else 'Python'} numbers) declares is_monotonic()={term.is_monotonic()} but tsukamoto gives {got}")
                    break
    # Linear / Function (registered terms that need an engine)
    for term in (fl.Linear("l", [1.0]), fl.Function("f", "x")):
        acc.case((type(term).__name__,), nontrivial=True)
        acc.cls("refusals")
        try:
            got = term.tsukamoto(0.5)
        except RuntimeError:
            continue
        except Exception as ex:  # noqa: BLE001
            got = f"{type(ex).__name__}: {ex}"
        acc.violate("refuse", {"term": type(term).__name__}, {"term": type(term).__name__, "params": [], "height": 1.0, "y": 0.5},
                    "RuntimeError", got, "tsukamoto did not refuse")


def run_shard(tier: str, seed: int, shard):
    cls, chunk = shard
    acc = Acc(ID)
    if cls == "refuse":
        check_refusals(acc, tier, seed)
        return acc.result()
    for idx, p in enumerate(G.param_sets(cls, tier, seed)):
        if idx % CHUNKS != chunk or p[0] == p[1]:
            continue  # (a vertical edge has no inverse)
        for h in G.HEIGHTS:
            ys = y_grid(h, tier, seed)
            acc.guard({"term": cls, "params": p, "height": h, "y": ys[0]}, check_term, acc, cls, p, h, ys)
            acc.extra["parameterisations"] += 1
        if idx == chunk:
            t = G.make_term(cls, "t", p, 0.7)
            acc.sample({"term": cls, "params": p, "height": 0.7, "y": 0.35, "tsukamoto": float(t.tsukamoto(0.35))}, 1)
    return acc.result()


def summarize(tier: str, seed: int, merged: dict) -> dict:
    vac = []
    if merged["classes"].get("refusals", 0) < 15:
        vac.append("non-monotonic terms not exercised")
    return {
        "rule": (
            f"6 monotonic terms x all ordered parameter pairs over {G.positions(tier, seed)} (both directions; Sigmoid "
            f"slopes of both signs) x heights {G.HEIGHTS} x y in {{h*i/N}} U {{2^-1000h, 2^-52h, h/2 +-3 ulps, "
            "h(1-2^-53), seed-phased lattice}}; float64, float32 and float16 degree arrays; far-from-origin parameter sets; wrapper terms "
            "(Activated, Aggregated) and the non-monotonic terms must refuse; every case is non-trivial (0 < y < h)"
        ),
        "exhaustive": True,
        "vacuity_errors": vac,
        "assumptions": ["y >= 2^-1000*h: for subnormal y the exact inverse of Concave exceeds the double range (DESIGN 3.3)"],
    }


def replay(case: dict):
    acc = Acc(ID)
    cls = case["term"]
    if cls not in G.MONOTONIC:
        check_refusals(acc, "quick", 0)
        return [v for v in acc.violations if v["sig"].get("term") == cls]
    ys = sorted({float(case[k]) for k in ("y", "y_prev") if k in case})
    acc.guard(case, check_term, acc, cls, [float(v) for v in case["params"]], float(case["height"]), ys)
    return acc.violations

"""C08 - activation methods trigger exactly the rules their definition selects.

K1 + K4: blocks of n rules `if i_k is t then o is t_k` (rule k's degree IS input k, exactly) x ALL degree vectors
over a small alphabet (ties and zeros by construction) x rule status vectors with <= d rules disabled/unloaded x
every method and parameter value.  Driver: RuleBlock.activate() on the real block.
Oracle: vmc.ref.activation - triggered set, every stored degree, the multiset of contributions.
"""

from __future__ import annotations

import itertools

import numpy as np

from ..explore import Acc
from ..lib import fl
from ..oracle import close
from ..ref import activation as R

ID = "C08"
LEVEL = "model_checking"
TINY = 2.0**-12  # positive but below the library comparison tolerance (atol = 1e-3)
THRESHOLDS = [0.0, TINY, 0.25, 0.3, 0.5, 1.0]


def sizes(tier: str):
    # (n, degree alphabet, max status deviations)
    if tier == "quick":
        return [(1, 6, 1), (2, 6, 2), (3, 6, 1), (4, 4, 1)]
    return [(1, 6, 1), (2, 6, 2), (3, 6, 2), (4, 6, 2), (5, 5, 1), (6, 4, 1), (7, 3, 1), (8, 3, 0)]


def alphabet(k: int):
    # (6: with a NaN degree - an input that was never assigned - next to positive ones)
    return {6: [0.0, TINY, 0.25, 0.5, 1.0, float("nan")], 5: [0.0, TINY, 0.25, 0.5, 1.0], 4: [0.0, 0.25, 0.5, 1.0], 3: [0.0, 0.5, 1.0]}[k]


def methods(n: int):
    out = [("General", ()), ("Proportional", ())]
    for m in ("First", "Last"):
        out += [(m, (c, t)) for c in range(0, n + 2) for t in THRESHOLDS]
    for m in ("Highest", "Lowest"):
        out += [(m, (c,)) for c in range(-1, n + 2)]
    out += [("Threshold", (c, t)) for c in R.COMPARATORS for t in THRESHOLDS]
    return out


def statuses(n: int, maxdev: int):
    """Status vectors with at most maxdev rules not 'normal' (K4 deviation enumeration)."""
    out = []
    for d in range(0, maxdev + 1):
        for idx in itertools.combinations(range(n), d):
            # failed-load: the rule's text has a valid first and an invalid second conclusion, its load failed (single deviations)
            for kinds in itertools.product(("disabled", "unloaded") + (("failed-load", "half-unloaded") if d == 1 else ()), repeat=d):
                st = ["normal"] * n
                for i, k in zip(idx, kinds):
                    st[i] = k
                out.append(tuple(st))
    return out


def plan(tier: str, seed: int):
    shards = []
    for n, k, dev in sizes(tier):
        parts = 1 if n <= 2 else (4 if n == 3 else 16)
        shards += [(n, k, dev, p, parts) for p in range(parts)]
    return shards


def build(n: int):
    # z is 0 and u is 1 on the whole range: `t or z` and `t and u` have the degree of `t` - under the block's disjunction /
    # conjunction and under nothing else (Minimum / Maximum swapped would give 0 / 1)
    inputs = [fl.InputVariable(f"i{k}", minimum=0.0, maximum=1.0,
                               terms=[fl.Ramp("t", 0.0, 1.0), fl.Rectangle("z", 5.0, 6.0), fl.Rectangle("u", -5.0, 6.0)]) for k in range(n)]
    out = fl.OutputVariable("o", minimum=0.0, maximum=1.0,
                            terms=[fl.Triangle(f"t{k}", 0.0, 0.5, 1.0) for k in range(n)])
    block = fl.RuleBlock("rb", conjunction=fl.Minimum(), disjunction=fl.Maximum(), implication=fl.Minimum())
    engine = fl.Engine("e", input_variables=inputs, output_variables=[out], rule_blocks=[block])
    block.rules = [fl.Rule.create(rule_text(k), engine) for k in range(n)]
    return engine, block, out


def rule_text(k: int) -> str:
    ante = f"i{k} is t or i{k} is z" if k % 2 == 0 else f"i{k} is t and i{k} is u"
    return f"if {ante} then o is t{k}"


def make_method(name: str, params: tuple):
    if name in ("General", "Proportional"):
        return getattr(fl, name)()
    return getattr(fl, name)(*params)


def run_case(acc: Acc, engine, block, out, n, degrees, status, mname, params) -> None:
    case = {"n": n, "degrees": list(degrees), "status": list(status), "method": mname, "params": list(params)}
    for k in range(n):
        engine.input_variables[k].value = degrees[k]
    out.fuzzy.clear()
    block.activate()
    acc.transitions += 1
    loaded = [s not in ("unloaded", "failed-load", "half-unloaded") for s in status]
    enabled = [s != "disabled" for s in status]
    stored, trig, contrib = R.activate(mname, params, list(degrees), loaded, enabled)
    acc.traces += 1
    positive = sum(1 for d, l in zip(degrees, loaded) if l and d > 0)
    acc.case((n, degrees, status, mname, params), nontrivial=positive >= 2)
    got_deg = [float(r.activation_degree) for r in block.rules]
    got_trig = [bool(r.triggered) for r in block.rules]
    sig = {"method": mname}
    if got_trig != trig:
        acc.violate("triggered-set", sig, case, trig, got_trig, f"{mname}{params} degrees={degrees} status={status}: "
                    f"triggered {got_trig}, expected {trig}")
    if not all(close(a, b, 1e-15, 1e-15) for a, b in zip(got_deg, stored)):
        acc.violate("stored-degree", sig, case, stored, got_deg, f"{mname}{params} degrees={degrees}: stored degrees "
                    f"{got_deg}, expected {stored}")
    got_contrib = sorted((a.term.name, round(float(a.degree), 12)) for a in out.fuzzy.terms)
    want_contrib = sorted((f"t{k}", round(d, 12) if d == d else 0.0) for k, d in contrib)  # (an activated term stores NaN as 0)
    if got_contrib != want_contrib:
        acc.violate("contributions", sig, case, want_contrib, got_contrib, f"{mname}{params} degrees={degrees} "
                    f"status={status}: fuzzy output {got_contrib}, expected {want_contrib}")
    out.fuzzy.clear()
    block.activate()
    acc.transitions += 1
    again = ([float(r.activation_degree) for r in block.rules], [bool(r.triggered) for r in block.rules],
             sorted((a.term.name, round(float(a.degree), 12)) for a in out.fuzzy.terms))
    def key(t):
        return (["nan" if d != d else d for d in t[0]], t[1], t[2])

    if key(again) != key((got_deg, got_trig, got_contrib)):
        acc.violate("not-repeatable", sig, case, [got_deg, got_trig, got_contrib], list(again),
                    f"{mname}{params} degrees={degrees}: a second activation of the same block gives a different result")
    if any(t and not (d > 0.0) for t, d in zip(got_trig, got_deg)):
        acc.violate("triggered-implies-positive", sig, case, None, [got_trig, got_deg], "triggered with degree <= 0")
    acc.cls(f"selected_{min(len(contrib), 3)}{'+' if len(contrib) > 3 else ''}")


def apply_status(engine, block, status) -> None:
    for k, (rule, st) in enumerate(zip(block.rules, status)):
        rule.enabled = st != "disabled"
        valid = rule_text(k)
        if st == "failed-load":
            rule.parse(f"{valid} and ghost is t{k}")
            try:
                rule.load(engine)
            except Exception:  # noqa: BLE001
                pass  # (reported by RuleBlock.load_rules in real use; the rule must simply stay out of the way)
            continue
        if rule.text != valid:
            rule.unload()
            rule.parse(valid)
        if st == "unloaded":
            rule.unload()
        elif st == "half-unloaded":  # only the antecedent is unloaded (the rule keeps whatever state its last activation left)
            if not rule.is_loaded():
                rule.load(engine)
            for iv in engine.input_variables:  # one activation with every degree 1: the rule is left triggered ...
                iv.value = 1.0
            block.activate()
            engine.output_variables[0].fuzzy.clear()
            rule.antecedent.unload()           # ... and then loses its antecedent
        elif not rule.is_loaded():
            rule.load(engine)


def check_batches(acc: Acc, n: int) -> None:
    engine, block, out = build(n)
    for mname, params in [("General", ()), ("Proportional", ()), ("First", (1, 0.0)), ("Last", (1, 0.0)),
                          ("Highest", (1,)), ("Lowest", (1,)), ("Threshold", (">", 0.0))]:
        block.activation = make_method(mname, params)
        for size in (1, 2):
            for k in range(n):
                engine.input_variables[k].value = 0.5
            engine.input_variables[n - 1].value = np.array([0.5, 0.25][:size])
            out.fuzzy.clear()
            case = {"n": n, "method": mname, "params": list(params), "batch_size": size}
            acc.case((n, mname, "batch", size), nontrivial=True)
            acc.transitions += 1
            try:
                block.activate()
                outcome = "accepted"
            except ValueError:
                outcome = "ValueError"
            except Exception as ex:  # noqa: BLE001
                outcome = type(ex).__name__
            want = "ValueError" if (size > 1 and mname != "General") else "accepted"
            acc.cls(f"batch_{want}")
            # a 1-element array is a "unit scalar" for every method (Activation.assert_is_not_vector); real batches are
            # rejected by the vector-incapable methods and never mis-selected
            if outcome != want:
                acc.violate("batch", {"method": mname}, case, want, outcome,
                            f"{mname} with a batch of size {size}: {outcome}, expected {want}")


def run_shard(tier: str, seed: int, shard):
    n, k, dev, part, parts = shard
    acc = Acc(ID)
    engine, block, out = build(n)
    vecs = list(itertools.product(alphabet(k), repeat=n))
    meths = methods(n)
    for st in statuses(n, dev):
        apply_status(engine, block, st)
        for mname, params in meths:
            block.activation = make_method(mname, params)
            for idx, degrees in enumerate(vecs):
                if idx % parts != part:
                    continue
                acc.guard({"n": n, "degrees": list(degrees), "status": list(st), "method": mname,
                           "params": list(params)}, run_case, acc, engine, block, out, n, degrees, st, mname, params)
    if part == 0:
        check_batches(acc, n)
        acc.sample({"n": n, "degrees": list(vecs[-2]), "status": ["normal"] * n, "method": "Highest", "params": [1],
                    "expected": R.activate("Highest", (1,), list(vecs[-2]), [True] * n, [True] * n)}, 1)
    acc.states = acc.evals
    return acc.result()


def summarize(tier: str, seed: int, merged: dict) -> dict:
    vac = []
    for cls in ("selected_0", "selected_1", "selected_2", "batch_ValueError", "batch_accepted"):
        if not merged["classes"].get(cls):
            vac.append(f"outcome class {cls} is empty")
    return {
        "rule": (
            "blocks of n rules (n, |degree alphabet|, max status deviations) = "
            f"{sizes(tier)}; all degree vectors x all status vectors within the deviation bound "
            "(disabled/unloaded/only the antecedent unloaded/load failed after the first conclusion; antecedents `t or <always 0>` / `t and <always 1>`; degree alphabets {0, 2^-12, .25, .5, 1, NaN} / {0, 2^-12, .25, .5, 1} / {0, .25, .5, 1} / {0, .5, 1}) x General, "
            "Proportional, First/Last(n=0..rules+1, t in {0, 2^-12, .25, .3, .5, 1}), "
            "Highest/Lowest(n=-1..rules+1), Threshold(6 comparators x 6 thresholds); plus batch rejection (size 2) and acceptance of one-element arrays. "
            "states = (block, degrees, status, method) configurations, transitions = RuleBlock.activate calls, traces = "
            "reference-model runs compared; non-trivial = at least two loaded rules with positive degree"
        ),
        "exhaustive": True,
        "vacuity_errors": vac,
        "assumptions": ["reading 3.3 of DESIGN.md for disabled rules (counted by First/Last/Highest/Lowest/Proportional)"],
    }


def replay(case: dict):
    acc = Acc(ID)
    n = case["n"]
    if "batch_size" in case:
        check_batches(acc, n)
        return [v for v in acc.violations if v["case"]["method"] == case["method"]]
    engine, block, out = build(n)
    apply_status(engine, block, case["status"])
    params = tuple(case["params"])
    block.activation = make_method(case["method"], params)
    acc.guard(case, run_case, acc, engine, block, out, n, tuple(float(d) for d in case["degrees"]),
              tuple(case["status"]), case["method"], params)
    return acc.violations

"""C20 - temporary settings are always restored.

K2 explicit-state + crash points on the real singleton fl.settings: all nestings up to depth 4 of contexts over
subsets of the 7 settings (all 128 subsets at depths 1-2, bounded-size subsets at depths 3-4), an exception
(ValueError / KeyboardInterrupt) raised in the innermost body and caught after propagating through k contexts for
every k, or none, and one direct assignment at any level.  Reference model: a stack of {key: previous value}
snapshots (vmc.ref.settings inline below); the invariant vars(settings) == model is checked in EVERY state (after
each enter, assignment, exit), together with the observation helpers (Op.str, Op.is_close, scalar dtype, repr alias).
"""

from __future__ import annotations

import itertools
import logging

import numpy as np

from ..explore import Acc
from ..lib import PRISTINE, fl, reset_settings

ID = "C20"
LEVEL = "model_checking"
KEYS = ["float_type", "decimals", "atol", "rtol", "alias", "logger", "factory_manager"]
ATTR = {k: k for k in KEYS}
ATTR["factory_manager"] = "_factory_manager"

_FACTORIES = None


def level_values(level: int) -> dict:
    """Fresh, level-specific values (falsy-but-not-None values included on purpose)."""
    global _FACTORIES
    if _FACTORIES is None:
        _FACTORIES = [fl.FactoryManager() for _ in range(5)]
        for k in (1, 3):  # two of the temporary factory managers know one more formula operator
            f = _FACTORIES[k].function
            f["//"] = fl.Function.Element("//", "Floor division", fl.Function.Element.Type.Operator, np.floor_divide, arity=2,
                                          precedence=f.objects["/"].precedence, associativity=-1)
    return {
        "float_type": [np.float32, np.float16, np.float32, np.float16, np.float32][level],
        "decimals": [5, 0, 7, 1, 9][level],
        "atol": [1e-5, 0.5, 1e-7, 1e-1, 1e-9][level],
        "rtol": [0.25, 0.0, 0.125, 0.5, 0.0625][level],
        "alias": ["a0", "", "*", "zz", "a4"][level],
        "logger": logging.getLogger(f"vmc.c20.l{level}"),
        "factory_manager": _FACTORIES[level],
    }


DIRECT = {"float_type": np.float16, "decimals": 11, "atol": 0.75, "rtol": 0.875, "alias": "dd",
          "logger": logging.getLogger("vmc.c20.direct"), "factory_manager": None}


class Boom(ValueError):
    pass


def subsets(max_size: int | None):
    out = []
    for r in range(0, 8):
        if max_size is not None and r > max_size:
            break
        out += [tuple(c) for c in itertools.combinations(KEYS, r)]
    return out


def current() -> dict:
    v = vars(fl.settings)
    return {k: v[ATTR[k]] for k in KEYS}


def equal_state(a: dict, b: dict) -> bool:
    for k in KEYS:
        if k in ("float_type", "logger", "factory_manager"):
            if a[k] is not b[k]:
                return False
        elif not (a[k] == b[k] and type(a[k]) is type(b[k])):
            return False
    return True


def show(d: dict) -> dict:
    return {k: (getattr(v, "__name__", None) or getattr(v, "name", None) or repr(v)) if k in ("float_type", "logger")
            else (f"FactoryManager@{id(v) % 100000}" if k == "factory_manager" else v) for k, v in d.items()}


LONG_LIVED: dict = {}


def long_lived():
    """Objects that outlive the contexts: an exporter and a benchmark built at import time under the default settings, and
    an exporter built during the PREVIOUS observation (whatever settings were in force then)."""
    if not LONG_LIVED:
        import io
        LONG_LIVED["io"] = io
        LONG_LIVED["grid_engine"] = fl.Engine("g", input_variables=[fl.InputVariable("a", minimum=0.0, maximum=1.0)])
        LONG_LIVED["fld_default"] = fl.FldExporter(headers=False, output_values=False)
        LONG_LIVED["fld_previous"] = fl.FldExporter(headers=False, output_values=False)
        ten = fl.Engine(
            "ten", input_variables=[fl.InputVariable("a", minimum=0.0, maximum=1.0, terms=[fl.Triangle("t", 0.0, 0.5, 1.0)])],
            output_variables=[fl.OutputVariable("o", minimum=0.0, maximum=20.0, defuzzifier=fl.WeightedAverage(), terms=[fl.Constant("k", 10.0)])],
            rule_blocks=[fl.RuleBlock("rb", activation=fl.General(), rules=[fl.Rule.create("if a is any then o is k")])])
        LONG_LIVED["benchmarks"] = [(off, fl.Benchmark("b", ten, np.array([[0.5, 10.0 + off]]))) for off in (0.046875, 0.3125)]
    return LONG_LIVED


def observe_helpers(acc: Acc, case: dict, model: dict, where: str) -> None:
    """Formatting/comparison helpers must see exactly the values in force."""
    d = model["decimals"]
    want = f"{1 / 3:.{d}f}"
    got = fl.Op.str(1 / 3)
    if got != want:
        acc.violate("helper", {"helper": "Op.str"}, {**case, "where": where}, want, got, f"Op.str(1/3) = {got} with decimals={d}")
    # numpy scalars and arrays of every floating type are numbers too
    for x in (np.float32(0.25), np.float16(0.75), np.array([0.5, 0.125], dtype=np.float32)):
        want = " ".join(f"{float(v):.{d}f}" for v in np.atleast_1d(x))
        got = fl.Op.str(x)
        if got != want:
            acc.violate("helper", {"helper": "Op.str", "kind": str(np.asarray(x).dtype)}, {**case, "where": where}, want, got,
                        f"Op.str({x!r}) = {got} with decimals={d}")
    # long-lived objects read the settings when they are USED, not when they were built (observed once per worker for
    # every distinct combination of: decimals when the previous exporter was built, the values in force, kind of point)
    ll = long_lived()
    key = (ll.get("previous_decimals"), d, model["atol"], model["rtol"], np.dtype(model["float_type"]).name, where.split("@")[0])
    if key in ll.setdefault("observed", set()):
        return_early = True
    else:
        return_early = False
        ll["observed"].add(key)
    if return_early:
        return finish_helpers(acc, case, model, where)
    ll["previous_decimals"] = d
    acc.cls("long_lived_object_observations")
    for key in ("fld_default", "fld_previous"):
        w = ll["io"].StringIO()
        ll[key].write(ll["grid_engine"], w, np.array([[0.25]]))
        want = f"{0.25:.{d}f}"
        if w.getvalue().strip() != want:
            acc.violate("helper", {"helper": "FldExporter", "built": key}, {**case, "where": where}, want, w.getvalue().strip(),
                        f"an FldExporter built {'at import time' if key == 'fld_default' else 'during the previous observation'} writes "
                        f"{w.getvalue().strip()!r} with decimals={d}")
    ll["fld_previous"] = fl.FldExporter(headers=False, output_values=False)
    for off, bench in ll["benchmarks"]:
        want_ok = bool(off <= model["atol"] + model["rtol"] * 10.0)
        try:
            bench.run()
            got_ok = True
        except AssertionError:
            got_ok = False
        if got_ok != want_ok:
            acc.violate("helper", {"helper": "Benchmark.run"}, {**case, "where": where}, want_ok, got_ok,
                        f"Benchmark.run accepts={got_ok} an error of {off} on a value of 10 with atol={model['atol']} rtol={model['rtol']}")
    finish_helpers(acc, case, model, where)


ARR64 = np.array([0.5, 0.25])  # a double-precision array that outlives every context


def finish_helpers(acc: Acc, case: dict, model: dict, where: str) -> None:
    # conversion helper: arrays that were created under other settings are converted to the float type in force
    # (this group too is observed once per worker and distinct combination of the values it depends on)
    ll = long_lived()
    prev = ll.get("previous_array", ARR64)
    key2 = (str(prev.dtype), np.dtype(model["float_type"]).name, id(model["factory_manager"]), model["atol"], model["rtol"], model["decimals"], where.split("@")[0])
    if key2 in ll.setdefault("observed2", set()):
        return finish_cheap(acc, case, model, where)
    ll["observed2"].add(key2)
    for label, arr in (("float64 array built at import time", ARR64), ("array built during the previous observation", ll.get("previous_array", ARR64))):
        if fl.scalar(arr).dtype != np.dtype(model["float_type"]):
            acc.violate("helper", {"helper": "scalar", "operand": label.split()[0]}, {**case, "where": where}, str(np.dtype(model["float_type"])),
                        str(fl.scalar(arr).dtype), f"scalar({label}) has dtype {fl.scalar(arr).dtype}, the float type in force is {np.dtype(model['float_type'])}")
    ll["previous_array"] = fl.scalar([0.5, 0.25])
    # the formula tokeniser uses the operators of the factory manager in force
    # (not in the freshly-imported state: reading settings.factory_manager would create the manager, i.e. change the state)
    fm = model["factory_manager"]
    has_floor = fm is not None and "//" in fm.function
    want = "7 // 2 + 1" if has_floor else "7 / / 2 + 1"
    got = fl.Function.format_infix("7//2+1") if fm is not None else want
    if got != want:
        acc.violate("helper", {"helper": "Function.format_infix"}, {**case, "where": where}, want, got,
                    f"Function.format_infix('7//2+1') = {got!r}; the factory manager in force {'has' if has_floor else 'does not have'} the operator //")
    # a term prints its height unless it is close to 1 under the tolerances in force
    d = model["decimals"]
    for h in (0.95, 1.0004):
        is_one = abs(h - 1.0) <= model["atol"] + model["rtol"] * 1.0
        want = "term: t Triangle " + " ".join(f"{v:.{d}f}" for v in [0.0, 0.5, 1.0] + ([] if is_one else [h]))
        got = str(fl.Triangle("t", 0.0, 0.5, 1.0, h))
        if got != want:
            acc.violate("helper", {"helper": "Term.__str__"}, {**case, "where": where}, want, got,
                        f"str(Triangle(height={h})) = {got!r} with atol={model['atol']} rtol={model['rtol']} decimals={d}; expected {want!r}")
    # a rule prints its weight unless it is close to 1 (the relative tolerance scales with the reference value 1)
    for wgt in (1.14, 0.9):
        is_one = abs(wgt - 1.0) <= model["atol"] + model["rtol"] * 1.0
        want = "if a is b then c is d" + ("" if is_one else f" with {wgt:.{d}f}")
        rule = fl.Rule()
        rule.parse(f"if a is b then c is d with {wgt!r}")
        if rule.text != want:
            acc.violate("helper", {"helper": "Rule.text"}, {**case, "where": where}, want, rule.text,
                        f"Rule.text = {rule.text!r} for weight {wgt} with atol={model['atol']} rtol={model['rtol']} decimals={d}; expected {want!r}")
    finish_cheap(acc, case, model, where)


def finish_cheap(acc: Acc, case: dict, model: dict, where: str) -> None:
    # (the relative tolerance scales with the SECOND operand: the last two pairs sit between rtol*|a| and rtol*|b| for rtol = 1/8)
    for x, y in ((1.0, 1.0005), (100.0, 111.0), (0.01, 0.0104), (0.0, 0.4), (0.0, 0.0625), (1.0, 1.14), (1.14, 1.0)):
        want_close = bool(abs(x - y) <= model["atol"] + model["rtol"] * abs(y))
        got_close = bool(fl.Op.is_close(x, y))
        if got_close != want_close:
            acc.violate("helper", {"helper": "Op.is_close"}, {**case, "where": where}, want_close, got_close,
                        f"Op.is_close({x}, {y}) = {got_close} with atol={model['atol']} rtol={model['rtol']}")
    if fl.scalar(1).dtype != np.dtype(model["float_type"]):
        acc.violate("helper", {"helper": "scalar"}, {**case, "where": where}, str(np.dtype(model["float_type"])), str(fl.scalar(1).dtype), "scalar dtype")
    alias = model["alias"]
    prefix = "fuzzylite.term." if alias == "" else ("" if alias == "*" else f"{alias}.")
    r = repr(fl.Constant("k", 1.0))
    if not r.startswith(prefix + "Constant("):
        acc.violate("helper", {"helper": "repr"}, {**case, "where": where}, prefix + "Constant(...)", r, "repr alias")
    if model["factory_manager"] is not None and fl.settings.factory_manager is not model["factory_manager"]:
        acc.violate("helper", {"helper": "factory_manager"}, {**case, "where": where}, "model factory", "other", "factory_manager property")


def run_scenario(acc: Acc, seen: set, levels, mode, assign, fresh_factory: bool = False) -> None:
    """levels: tuple of key-subsets; mode: ('normal',) or (exc_name, catch_depth); assign: None or (level, key);
    fresh_factory: start from the state of a freshly imported library (the factory manager not created yet)."""
    reset_settings()
    if fresh_factory:
        fl.settings._factory_manager = None
    initial = current()
    DIRECT["factory_manager"] = level_values(4)["factory_manager"]
    model = dict(initial)
    stack: list[dict] = []
    D = len(levels)
    case = {"levels": [list(s) for s in levels], "mode": list(mode), "assign": list(assign) if assign else None,
            "fresh_factory": fresh_factory}
    bad = []

    def check(where: str) -> None:
        acc.transitions += 1
        seen.add((tuple(tuple(sorted(s)) for s in stack), tuple(str(show(model)[k]) for k in KEYS)))
        if not equal_state(current(), model):
            bad.append(where)
            acc.violate("state", {"where": where.split("@")[0]}, {**case, "where": where}, show(model), show(current()),
                        f"settings differ from the model {where}: {show(current())} != {show(model)} in {case}")
        elif not bad and assign is None and (where.startswith(("inside", "caught")) or where.endswith("@0")):
            # the helpers read the singleton at call time, so one observation per configuration in force suffices:
            # scenarios without a direct assignment, inside every context, at the catch point and after the last exit
            observe_helpers(acc, case, model, where)

    catch_at = D - mode[1] if mode[0] != "normal" else None  # the try/except wraps contexts catch_at..D-1
    # normal-exit nestings of depth >= 2 create all their context objects UP FRONT (before any of them is entered) and enter
    # them later: what a context restores is what was in force when it was ENTERED
    deferred = None
    if mode[0] == "normal" and D >= 2 and not fresh_factory:
        deferred = [fl.settings.context(**{k: level_values(lv)[k] for k in levels[lv]}) for lv in range(D)]

    def guarded(level: int) -> None:
        if catch_at is not None and catch_at == level:
            try:
                run(level)
                acc.violate("exception-lost", {}, case, mode[0], "no exception", "exception swallowed by a context")
            except (Boom, KeyboardInterrupt) as ex:
                if str(ex) != "boom" or not isinstance(ex, Boom if mode[0] == "ValueError" else KeyboardInterrupt):
                    acc.violate("exception-changed", {}, case, mode[0], repr(ex), "exception replaced")
                check(f"caught@{level}")
        else:
            run(level)

    def run(level: int) -> None:
        if assign and assign[0] == level:
            key = assign[1]
            setattr(fl.settings, ATTR[key], DIRECT[key])
            model[key] = DIRECT[key]
            check(f"after-assign@{level}")
        if level == D:
            if mode[0] != "normal":
                raise (Boom if mode[0] == "ValueError" else KeyboardInterrupt)("boom")
            return
        keys = levels[level]
        vals = level_values(level)
        kwargs = {k: vals[k] for k in keys}
        stack.append({k: model[k] for k in keys})
        for k in keys:
            model[k] = vals[k]
        by_exception = True
        try:
            with (deferred[level] if deferred is not None else fl.settings.context(**kwargs)):
                check(f"inside@{level}")
                guarded(level + 1)
                check(f"inner-left@{level}")
                by_exception = False
        finally:
            snap = stack.pop()
            for k, v in snap.items():
                model[k] = v
            check(f"after-exit{'-exc' if by_exception else ''}@{level}")

    try:
        guarded(0)
    finally:
        final_ok = equal_state(current(), model)
        reset_settings()
    acc.traces += 1
    acc.case((levels, mode, assign), nontrivial=D >= 1 and any(levels))
    acc.cls("exception" if mode[0] != "normal" else "normal")
    if assign:
        acc.cls("with_direct_assignment")
    if not final_ok and not bad:
        acc.violate("state", {"where": "final"}, case, show(model), "differs", "final state differs from the model")


def run_other_instance(acc: Acc) -> None:
    """settings.context on a Settings object other than the library-wide one: that object is changed and restored, the
    library-wide settings are never touched (all 128 subsets x normal / exception exit)."""
    from fuzzylite.library import Settings
    for keys in subsets(None):
        for exc in (False, True):
            reset_settings()
            before_global = current()
            profile = Settings(decimals=5, atol=0.25, rtol=0.125, alias="profile", float_type=np.float32,
                               logger=logging.getLogger("vmc.c20.profile"), factory_manager=level_values(2)["factory_manager"])
            before_profile = {k: vars(profile)[ATTR[k]] for k in KEYS}
            vals = level_values(0)
            case = {"levels": [list(keys)], "mode": ["ValueError", 1] if exc else ["normal"], "assign": None, "fresh_factory": False, "other_instance": True}
            acc.case(("other-instance", keys, exc), nontrivial=bool(keys))
            acc.transitions += 1
            inside_ok = True
            try:
                with profile.context(**{k: vals[k] for k in keys}):
                    inside = {k: vars(profile)[ATTR[k]] for k in KEYS}
                    inside_ok = all((inside[k] is vals[k] or inside[k] == vals[k]) if k in keys else (inside[k] is before_profile[k] or inside[k] == before_profile[k]) for k in KEYS)
                    mid_global = current()
                    if exc:
                        raise Boom("boom")
            except Boom:
                pass
            after_profile = {k: vars(profile)[ATTR[k]] for k in KEYS}
            ok = inside_ok and equal_state(after_profile, before_profile) and equal_state(current(), before_global) and equal_state(mid_global, before_global)
            if not ok:
                acc.violate("state", {"where": "other-instance"}, case, [show(before_profile), show(before_global)], [show(after_profile), show(current())],
                            f"context({list(keys)}) on another Settings object ({'left by an exception' if exc else 'left normally'}): that object is "
                            f"{show(after_profile)} afterwards (was {show(before_profile)}), the library-wide settings are {show(current())} (were {show(before_global)})")
            reset_settings()
    acc.cls("other_instance_scenarios")


def scenarios(tier: str, depth: int):
    if depth <= 2:
        subs = subsets(None)
    else:
        subs = subsets(1 if tier == "quick" else 2)
    for levels in itertools.product(subs, repeat=depth):
        yield levels


def modes(depth: int, tier: str, levels=()):
    out = [("normal",)]
    big = depth == 4 and tier == "thorough" and any(len(s) > 1 for s in levels)
    excs = ["ValueError"] if big else ["ValueError", "KeyboardInterrupt"]
    for e in excs:
        # the exception propagates through k = 1..depth contexts before the harness catches it
        out += [(e, k) for k in ((depth,) if big else range(1, depth + 1))]
    return out


def assigns(depth: int, tier: str, mode, levels=()):
    full = [None] + [(lv, k) for lv in range(depth + 1) for k in KEYS]
    reduced = [None] + [(depth, k) for k in KEYS] + [(min(1, depth), "decimals"), (min(2, depth), "alias")]
    if depth == 1:
        return full
    if tier == "quick":
        if depth == 4:
            return reduced
        return full if mode in (("normal",), ("ValueError", 1)) else reduced
    if depth == 4 and any(len(s) > 1 for s in levels):
        return [None, (depth, "atol")]  # depth 4 with two-setting contexts: exit paths only, one innermost assignment
    return full if depth <= 3 else reduced


def plan(tier: str, seed: int):
    shards = [(1, 0, 1)]
    shards += [(2, p, 16) for p in range(16)]
    shards += [(3, p, 8) for p in range(8)]
    shards += [(4, p, 32) for p in range(32)]
    return shards


def run_shard(tier: str, seed: int, shard):
    depth, part, parts = shard
    acc = Acc(ID)
    seen: set = set()
    for idx, levels in enumerate(scenarios(tier, depth)):
        if idx % parts != part:
            continue
        for mode in modes(depth, tier, levels):
            for assign in assigns(depth, tier, mode, levels):
                case = {"levels": [list(s) for s in levels], "mode": list(mode), "assign": list(assign) if assign else None}
                ok = acc.guard(case, run_scenario, acc, seen, levels, mode, assign)
                if not ok:
                    reset_settings()
            if depth <= 2 and any("factory_manager" in s for s in levels):
                # the same nesting from the state of a freshly imported library: no factory manager exists yet
                ok = acc.guard({**case, "assign": None, "fresh_factory": True}, run_scenario, acc, seen, levels, mode, None, True)
                acc.cls("fresh_factory_state")
                if not ok:
                    reset_settings()
    acc.states = len(seen)
    if depth == 1 and part == 0:
        if not acc.guard({"levels": [], "mode": ["normal"], "assign": None, "other_instance": True}, run_other_instance, acc):
            reset_settings()
    if shard == (2, 3, 16):
        acc.sample({"levels": [["decimals", "alias"], ["decimals"]], "mode": ["KeyboardInterrupt", 1],
                    "assign": [2, "atol"], "meaning": "two nested contexts, atol assigned directly in the innermost body, "
                    "KeyboardInterrupt raised there and caught after leaving one context"}, 1)
    return acc.result()


def summarize(tier: str, seed: int, merged: dict) -> dict:
    c = merged["classes"]
    vac = [f"outcome class {k} is empty" for k in ("normal", "exception", "with_direct_assignment") if not c.get(k)]
    return {
        "rule": (
            "nestings of depth 1..4 of settings.context over subsets of the 7 settings (depth 1-2: all 128 subsets per "
            f"level; depth 3-4: subsets of size <= {1 if tier == 'quick' else 2}; thorough depth 4 with a two-setting context "
            "explores only the normal exit, ValueError through all four contexts and one innermost assignment) x exit mode (normal | ValueError or "
            "KeyboardInterrupt raised in the innermost body and caught after k contexts, every k) x one direct assignment "
            "(none | any of the 7 settings at any level); invariant vars(settings)==model and the helper observations (Op.str on floats and numpy "
            "float32/float16 scalars and arrays, Op.is_close at 5 magnitudes, scalar dtype, repr alias, factory manager, FldExporter objects built "
            "at import time / during the previous observation, Benchmark.run) "
            "checked after every enter/assign/exit; normal-exit nestings of depth >= 2 create their context objects up front and enter them "
            "later; additionally all 128 subsets x 2 exit modes on a Settings object other than the library-wide one. states = distinct (open-context stack, settings) model states, "
            "transitions = invariant evaluations; non-trivial = at least one context names a setting"
        ),
        "exhaustive": True,
        "vacuity_errors": vac,
        "assumptions": ["level values are distinct per level and include falsy non-None values (decimals=0, alias='', rtol=0.0)"],
    }


def replay(case: dict):
    acc = Acc(ID)
    if case.get("other_instance"):
        acc.guard(case, run_other_instance, acc)
        reset_settings()
        return acc.violations
    LONG_LIVED.clear()  # (the once-per-worker memo of observed configurations must not hide the replayed observation)
    levels = tuple(tuple(s) for s in case["levels"])
    mode = tuple(case["mode"])
    assign = tuple(case["assign"]) if case.get("assign") else None
    if not acc.guard(case, run_scenario, acc, set(), levels, mode, assign, bool(case.get("fresh_factory"))):
        reset_settings()
    return acc.violations

"""C04 - T-norms and S-norms compute their formulas and obey the norm laws.

K1 bounded-exhaustive product: every pair on the dyadic grid D_n (and on a seed-phased non-dyadic lattice), every
triple on a coarser dyadic grid, for each of the 7 T-norms and 9 S-norms; scalar and array entry points.
Oracle: vmc.ref.norms (documented formulas in exact rational arithmetic) plus the laws of the statement.
"""

from __future__ import annotations

import itertools

import numpy as np

from ..explore import Acc
from ..lib import fl, seed_phase
from ..oracle import close, same
from ..ref import norms as R

ID = "C04"
LEVEL = "exploration"

EXACT_ASSOC = {
    "Minimum",
    "Maximum",
    "DrasticProduct",
    "DrasticSum",
    "NilpotentMinimum",
    "NilpotentMaximum",
    "BoundedDifference",
    "BoundedSum",
    "UnboundedSum",
}
NO_ASSOC = {"NormalizedSum"}


def grids(tier: str, seed: int):
    n_pair = 6 if tier == "quick" else 9
    n_trip = 4 if tier == "quick" else 7
    pair = [i / 2**n_pair for i in range(2**n_pair + 1)]
    trip = [i / 2**n_trip for i in range(2**n_trip + 1)]
    u = seed_phase(seed)
    m = 24 if tier == "quick" else 96
    phased = sorted({0.0, 1.0} | {(i + u) / m for i in range(m)})
    return pair, trip, phased


# operands next to the branch points 0, 1/2 and 1 (closer than the library tolerance atol = 1e-3, down to subnormals)
EDGE = sorted({0.0, 5e-324, 2.0**-1022, 2.0**-60, 2.0**-20, 2.0**-10, 0.25, 0.5 - 2.0**-10, 0.5 - 2.0**-20, 0.5,
               0.5 + 2.0**-20, 0.5 + 2.0**-10, 0.75, 1 - 2.0**-10, 1 - 2.0**-20, 1 - 2.0**-53, 1.0})


def plan(tier: str, seed: int):
    return [(name, part) for name in R.TNORMS + R.SNORMS for part in ("dyadic", "phased", "edge", "triples")]


def impl_of(name: str):
    return getattr(fl, name)()


def check_pairs(acc: Acc, name: str, grid: list[float], exact_grid: bool, lattice: str) -> None:
    impl = impl_of(name)
    is_t = name in R.TNORMS
    g = np.array(grid)
    A, B = np.meshgrid(g, g, indexing="ij")
    A0, B0 = A.copy(), B.copy()
    M = impl.compute(A, B)  # 2-D array entry point
    if not (np.array_equal(A, A0) and np.array_equal(B, B0)):
        acc.violate("input-array-modified", {"norm": name}, {"norm": name, "a": 0.5, "b": 0.5}, "operands unchanged", "overwritten",
                    f"{name}.compute modifies the caller's arrays")
        return
    if np.shape(M) != A.shape:
        acc.violate("array-shape", {"norm": name}, {"norm": name, "grid": grid}, A.shape, np.shape(M),
                    f"{name}.compute on a 2-D array returned shape {np.shape(M)}")
        return
    M1 = impl.compute(A.ravel(), B.ravel()).reshape(A.shape)  # 1-D array entry point
    # the same array OBJECT as both operands, float32 operands, a list, an ndarray subclass: same function, same values
    gg = g.copy()
    diag = np.asarray(impl.compute(gg, gg), dtype=float)
    others = {"same-object": diag, "float32": np.asarray(impl.compute(g.astype(np.float32), g.astype(np.float32)), dtype=float),
              "list": np.asarray(impl.compute(list(grid), list(grid)), dtype=float),
              "matrix": np.asarray(impl.compute(np.matrix(g), np.matrix(g)), dtype=float).ravel()}
    for kind, vals in others.items():
        ref_diag = np.array([float(impl.compute(float(np.float32(x)) if kind == "float32" else x,
                                                float(np.float32(x)) if kind == "float32" else x)) for x in grid])
        if vals.shape != ref_diag.shape or not np.allclose(vals, ref_diag, rtol=0, atol=1e-15, equal_nan=True):
            k = int(np.argmax(~np.isclose(vals, ref_diag, rtol=0, atol=1e-15))) if vals.shape == ref_diag.shape else 0
            acc.violate("operand-kind", {"norm": name, "operands": kind}, {"norm": name, "a": grid[k], "b": grid[k]}, float(ref_diag[k]),
                        vals.tolist()[:5], f"{name}: {kind} operands give different values than the scalar calls (first at {grid[k]})")
    # the library's debug switch is a logging level: the same function with it on (and numpy's error state untouched)
    err_before = np.geterr()
    fl.settings.debugging = True
    try:
        try:
            dbg = impl.compute(A, B)
        except Exception as ex:  # noqa: BLE001
            dbg = f"{type(ex).__name__}: {str(ex)[:60]}"
    finally:
        fl.settings.debugging = False
    err_after = np.geterr()
    np.seterr(**err_before)
    acc.cls("debugging_runs")
    if isinstance(dbg, str) or not np.array_equal(np.asarray(dbg, dtype=float), np.asarray(M, dtype=float), equal_nan=True) or err_after != err_before:
        acc.violate("configuration", {"norm": name, "setting": "debugging"}, {"norm": name, "a": grid[0], "b": grid[0]}, "same values, numpy error state untouched",
                    dbg if isinstance(dbg, str) else f"numpy error state {err_after}",
                    f"{name}: with settings.debugging = True the 2-D call gives {dbg if isinstance(dbg, str) else 'different values'} (numpy error state {err_after})")
    # broadcasting operand kinds: column x row, scalar (float and 0-d array) with an array on either side
    def same_arrays(x, y):
        x = np.asarray(x, dtype=float)
        return x.shape == np.shape(y) and bool(np.all((x == y) | (np.isnan(x) & np.isnan(y))))

    def outcome(fn):
        try:
            return fn()
        except Exception as ex:  # noqa: BLE001
            return f"{type(ex).__name__}: {str(ex)[:60]}"

    col = g.reshape(-1, 1)
    variants = [("column-row", outcome(lambda: impl.compute(col, g)), M, 0), ("row-column", outcome(lambda: impl.compute(g, col)), M.T, 0)]
    for i, a in enumerate(grid):
        variants.append(("scalar-array", outcome(lambda: impl.compute(a, g)), M[i, :], i))
        variants.append(("array-scalar", outcome(lambda: impl.compute(g, a)), M[:, i], i))
        variants.append(("0d-array", outcome(lambda: impl.compute(np.array(a), g)), M[i, :], i))
    # constant operands of another shape (an all-zero / all-one operand next to a scalar) and one-element arrays:
    # the result has the broadcast shape whatever the values are
    for i, a in enumerate(grid):
        for j, b in enumerate(grid):
            if not (i == j or a in (0.0, 1.0) or b in (0.0, 1.0)):
                continue
            w = M[i, j]
            variants.append(("scalar-constant-array", outcome(lambda: impl.compute(a, np.full(3, b))), np.full(3, w), i))
            variants.append(("constant-array-scalar", outcome(lambda: impl.compute(np.full(3, a), b)), np.full(3, w), i))
            variants.append(("column-constant-row", outcome(lambda: impl.compute(np.full((2, 1), a), np.full(3, b))), np.full((2, 3), w), i))
            variants.append(("one-element-arrays", outcome(lambda: impl.compute(np.array([a]), np.array([b]))), np.full(1, w), i))
            variants.append(("one-element-array-scalar", outcome(lambda: impl.compute(np.array([[a]]), b)), np.full((1, 1), w), i))
    for kind, got, want_arr, i in variants:
        acc.cls("broadcast_calls")
        if isinstance(got, str) or not same_arrays(got, want_arr):
            acc.violate("operand-kind", {"norm": name, "operands": kind}, {"norm": name, "a": grid[i], "b": grid[i]}, np.asarray(want_arr).ravel().tolist()[:5],
                        got if isinstance(got, str) else np.asarray(got, dtype=float).ravel().tolist()[:5],
                        f"{name}: {kind} operands (scalar/row {grid[i]}) give different values than the elementwise 2-D call")
            break
    n = len(grid)
    # order/range relations: no slack on the dyadic grid (every operation is exact or correctly rounded from an exact
    # value, so rounding is monotone); 1e-12 on the non-dyadic lattice where e.g. (a+1)-1 != a is plain rounding
    tol = 0.0 if exact_grid else 1e-12
    eq = same if exact_grid else close

    def region(x, y):
        """Tag of the known numerical weakness (known_findings.json C04-hamacher-sum-near-one)."""
        if name == "HamacherSum" and min(x, y) >= 1 - 2.0**-19 and (x < 1.0 or y < 1.0):
            return {"region": "both-operands-within-2^-19-of-1"}
        return {}
    for i, a in enumerate(grid):
        for j, b in enumerate(grid):
            interior = 0.0 < a < 1.0 and 0.0 < b < 1.0
            acc.case((name, lattice, i, j), nontrivial=interior)
            case = {"norm": name, "a": a, "b": b}
            v = float(M[i, j])
            s = impl.compute(a, b)  # scalar entry point (Python floats)
            if not (same(float(s), v) and same(float(M1[i, j]), v)) or np.shape(s) != ():
                acc.violate("array-vs-scalar", {"norm": name}, case, float(s), [v, float(M1[i, j])],
                            f"{name}({a},{b}): scalar call and array element differ")
            ex = R.exact(name, a, b)
            want = float(ex)
            if exact_grid:
                ok = same(v, want)
                acc.cls("formula_exact")
            else:
                # absolute slack of a few ulps of 1.0: a + b - 1 absorbs operands below 2^-53 (plain rounding)
                ok = close(v, want, 1e-12 if lattice != "edge" else 1e-15, 1e-12)
                acc.cls("formula_tolerance")
            if not ok:
                acc.violate("formula", {**region(a, b), "norm": name, "lattice": lattice}, case, want, v,
                            f"{name}({a},{b}) = {v!r}, documented formula gives {want!r}")
            # range
            if name == "UnboundedSum":
                if not same(v, a + b):
                    acc.violate("range", {**region(a, b), "norm": name}, case, a + b, v, f"UnboundedSum({a},{b}) != a+b")
            elif not (0.0 - tol <= v <= 1.0 + tol):
                acc.violate("range", {**region(a, b), "norm": name}, case, "[0,1]", v, f"{name}({a},{b}) = {v!r} outside [0,1]")
            # commutativity
            if not same(v, float(M[j, i])):
                acc.violate("commutativity", {**region(a, b), "norm": name}, case, float(M[j, i]), v,
                            f"{name}({a},{b}) != {name}({b},{a})")
            # monotonicity in the first argument (the second follows from the full grid + commutativity)
            if i + 1 < n:
                nxt = float(M[i + 1, j])
                if not (v <= nxt + tol):
                    acc.violate("monotonicity", {**region(a, b), "norm": name}, {**case, "a2": grid[i + 1]}, f">= {v!r}", nxt,
                                f"{name} decreases from a={a} to a={grid[i + 1]} at b={b}")
            # bounds against min/max
            if is_t:
                if not (v <= min(a, b) + tol):
                    acc.violate("t-le-min", {**region(a, b), "norm": name}, case, min(a, b), v, f"{name}({a},{b}) > min")
            else:
                if not (v >= max(a, b) - tol):
                    acc.violate("s-ge-max", {**region(a, b), "norm": name}, case, max(a, b), v, f"{name}({a},{b}) < max")
        # identity and annihilator
        a = grid[i]
        case = {"norm": name, "a": a, "b": 1.0 if is_t else 0.0}
        if is_t:
            ident, annih = float(impl.compute(a, 1.0)), float(impl.compute(a, 0.0))
            if not eq(ident, a):
                acc.violate("identity", {**region(a, 1.0 if not is_t else a), "norm": name}, case, a, ident, f"{name}({a},1) != {a}")
            if not eq(annih, 0.0):
                acc.violate("annihilator", {**region(a, 1.0 if not is_t else a), "norm": name}, {**case, "b": 0.0}, 0.0, annih, f"{name}({a},0) != 0")
        else:
            ident = float(impl.compute(a, 0.0))
            if not eq(ident, a):
                acc.violate("identity", {**region(a, 1.0 if not is_t else a), "norm": name}, case, a, ident, f"{name}({a},0) != {a}")
            if name != "UnboundedSum":
                annih = float(impl.compute(a, 1.0))
                if not eq(annih, 1.0):
                    acc.violate("annihilator", {**region(a, 1.0 if not is_t else a), "norm": name}, {**case, "b": 1.0}, 1.0, annih, f"{name}({a},1) != 1")
    # duality S(a,b) = 1 - T(1-a, 1-b)
    if is_t:
        dual = impl_of(R.DUAL[name])
        S = dual.compute(A, B)
        D = 1.0 - impl.compute(1.0 - A, 1.0 - B)
        for i, a in enumerate(grid):
            for j, b in enumerate(grid):
                if lattice == "edge" and any(0.0 < t < 2.0**-30 for t in (a, b, 1.0 - a, 1.0 - b)):
                    continue  # 1 - a is absorbed to 1 (or a to 0) in floating point: the complement is not exact
                acc.cls("duality_pairs")
                if not close(float(S[i, j]), float(D[i, j]), 1e-12, 1e-12):
                    acc.violate("duality", {"norm": name, "dual": R.DUAL[name]}, {"norm": name, "a": a, "b": b},
                                float(D[i, j]), float(S[i, j]),
                                f"{R.DUAL[name]}({a},{b}) != 1 - {name}(1-a,1-b)")


def check_triples(acc: Acc, name: str, grid: list[float]) -> None:
    if name in NO_ASSOC:
        acc.cls("assoc_not_demanded")
        return
    impl = impl_of(name)
    g = np.array(grid)
    A, B, C = np.meshgrid(g, g, g, indexing="ij")
    A, B, C = A.ravel(), B.ravel(), C.ravel()
    L = impl.compute(impl.compute(A, B), C)
    Rr = impl.compute(A, impl.compute(B, C))
    exact = name in EXACT_ASSOC
    acc.case(n=len(A))
    acc.extra["triples"] += len(A)
    inner = (A > 0) & (A < 1) & (B > 0) & (B < 1) & (C > 0) & (C < 1)
    for k in np.nonzero(inner)[0][:: max(1, len(A) // 4096)]:
        acc.nontrivial_keys.add(hash((name, "t", int(k))))
    if exact:
        bad = ~((L == Rr) | (np.isnan(L) & np.isnan(Rr)))
    else:
        bad = ~(np.abs(L - Rr) <= 1e-12)
    acc.cls("assoc_exact" if exact else "assoc_tolerance", len(A))
    for k in np.nonzero(bad)[0][:5]:
        acc.violate("associativity", {"norm": name}, {"norm": name, "a": A[k], "b": B[k], "c": C[k]},
                    float(Rr[k]), float(L[k]),
                    f"{name}({name}({A[k]},{B[k]}),{C[k]}) = {L[k]!r} but {name}({A[k]},{name}({B[k]},{C[k]})) = {Rr[k]!r}")


COMPLEMENTS = [0.1, 0.2, 0.3, 0.4, 0.41, 0.18, 0.05, 0.45, 0.49, 1.0 / 3.0, 0.07, 0.15, 0.35, 0.0625 + 1e-17, 0.123456789]


def check_symmetry_at_rounding_boundaries(acc: Acc, name: str) -> None:
    """Decimal pairs whose sum is 1 only after rounding (a, 1-a and their printed decimals): whatever the value is, it is
    the same for both operand orders, for scalars and arrays (the exact-arithmetic formula is not demanded here)."""
    impl = impl_of(name)
    pairs = []
    for a in COMPLEMENTS:
        for b in (1.0 - a, float(f"{1.0 - a:.2f}"), float(f"{1.0 - a:.3f}")):
            pairs.append((a, b))
    A = np.array([p[0] for p in pairs])
    B = np.array([p[1] for p in pairs])
    ab, ba = np.asarray(impl.compute(A, B), dtype=float), np.asarray(impl.compute(B, A), dtype=float)
    for k, (a, b) in enumerate(pairs):
        acc.case((name, "complement", k), nontrivial=True)
        x, y = float(impl.compute(a, b)), float(impl.compute(b, a))
        if not (same(x, y) and same(float(ab[k]), x) and same(float(ba[k]), x)):
            acc.violate("commutative", {"norm": name, "lattice": "rounding-boundary"}, {"norm": name, "a": a, "b": b}, x, [y, float(ab[k]), float(ba[k])],
                        f"{name}({a!r},{b!r}) = {x!r} but {name}({b!r},{a!r}) = {y!r} (array: {float(ab[k])!r}, {float(ba[k])!r})")
            return


def run_shard(tier: str, seed: int, shard):
    name, part = shard
    acc = Acc(ID)
    if part == "edge":
        acc.guard({"norm": name, "a": 0.3, "b": 0.7}, check_symmetry_at_rounding_boundaries, acc, name)
    pair, trip, phased = grids(tier, seed)
    case = {"norm": name, "a": 0.5, "b": 0.5}
    if part == "dyadic":
        acc.guard(case, check_pairs, acc, name, pair, True, "dyadic")
        acc.sample({"norm": name, "a": pair[3], "b": pair[5], "value": float(impl_of(name).compute(pair[3], pair[5]))})
    elif part == "phased":
        acc.guard(case, check_pairs, acc, name, phased, False, "phased")
    elif part == "edge":
        acc.guard(case, check_pairs, acc, name, EDGE, False, "edge")
    else:
        acc.guard({**case, "c": 0.5}, check_triples, acc, name, trip)
    return acc.result()


def summarize(tier: str, seed: int, merged: dict) -> dict:
    pair, trip, phased = grids(tier, seed)
    vac = []
    if merged["classes"].get("formula_exact", 0) < 16 * len(pair) ** 2:
        vac.append("not every dyadic pair of every norm was compared with the exact formula")
    return {
        "rule": (
            f"all pairs on the dyadic grid D (|D|={len(pair)}), on the seed-phased lattice (|L|={len(phased)}) and on the "
            f"edge set next to 0, 1/2 and 1 ({len(EDGE)} operands down to 2^-53 from 1 and subnormals), all "
            f"triples on |D3|={len(trip)}, for 7 T-norms and 9 S-norms; scalar, 1-D and 2-D array entry points, the same array as both "
            "operands, float32 / list / matrix operands, column x row, row x column and scalar (float, 0-d) with array on either side; a "
            "case is non-trivial when all operands are strictly inside (0,1); triples counted by a 1/4096 stride sample"
        ),
        "exhaustive": True,
        "vacuity_errors": vac,
        "assumptions": [
            "NilpotentMaximum's documented condition 'a+b<0' is read as 'a+b<1'",
            "vmc/ref/norms.py transcribes the docstring equations correctly",
        ],
        "coverage": {"grid_pairs": len(pair), "grid_triples": len(trip), "grid_phased": len(phased)},
    }


def replay(case: dict):
    acc = Acc(ID)
    name = case["norm"]
    pts = sorted({float(case[k]) for k in ("a", "b", "c", "a2") if k in case} | {0.0, 1.0})
    dyadic = all((p * 2**20).is_integer() for p in pts)
    check_pairs(acc, name, pts, dyadic, "replay")
    if "c" in case:
        check_triples(acc, name, pts)
    return acc.violations

"""C06 - rule antecedents mean what the rule grammar says.

K3 grammar-bounded enumeration: ALL expression trees with <= n leaves over a leaf alphabet x every and/or labelling,
printed by the trusted printer of vmc.ref.rulegrammar in five renderings (minimal parentheses, fully parenthesised,
doubled parentheses, no spaces around parentheses, parenthesised propositions), loaded with Rule.create and evaluated
with Rule.activate_with under conjunction/disjunction operator pairs, rule weights and input rows (incl. NaN, batch).
Oracle: the value of the SOURCE TREE under the reference norms/hedges/terms x weight; the implementation's postfix
must equal the printer's postfix; the reference recogniser must parse every rendering back to the tree.
A second family enumerates the leaf forms: all hedge chains, `any`, `not any`, output and disabled variables.
"""

from __future__ import annotations

import itertools

import numpy as np

from ..explore import Acc
from ..gen import trees as T
from ..lib import fl
from ..oracle import close
from ..ref import hedges as RH
from ..ref import norms as RN
from ..ref import rulegrammar as RG
from ..ref import terms as RT
from ..ref import weighted as RW

ID = "C06"
LEVEL = "model_checking"
NAN = float("nan")
STYLES = ["minimal", "full", "doubled", "tight", "props"]
ROWS = [(0.25, 0.75), (0.5, 0.125), (0.75, 0.5), (NAN, 0.25), (0.375, NAN)]
WEIGHTS = [None, "0.500", "0.250", "0.9995", "1.0005"]  # the last two are within the comparison tolerance of 1

TERMS = {
    "a": {"t": ("Triangle", [0.0, 0.5, 1.0]), "u": ("Ramp", [0.0, 1.0])},
    "b": {"t": ("Trapezoid", [0.0, 0.25, 0.5, 1.0]), "u": ("Ramp", [1.0, 0.0])},
    "d": {"t": ("Triangle", [0.0, 0.5, 1.0])},
    "o": {"p": ("Triangle", [0.0, 0.25, 0.5]), "q": ("Triangle", [0.5, 0.75, 1.0])},
    "w": {"p": ("Triangle", [0.0, 0.25, 0.5]), "q": ("Triangle", [0.5, 0.75, 1.0])},
    "z": {"p": ("Triangle", [0.0, 0.25, 0.5]), "q": ("Triangle", [0.5, 0.75, 1.0])},
}
PRELOAD = [("p", 0.25), ("q", 0.5), ("p", 0.5)]
OUT_AGGREGATION = "AlgebraicSum"
# a second output variable WITHOUT an aggregation operator (plain sum): its term p is activated to 1.35, above 1
PRELOAD_W = [("p", 0.75), ("q", 0.5), ("p", 0.6)]
# a third output variable that is DISABLED while its fuzzy output still holds activated terms (switched off after an
# inference step): a proposition on it is 0 whatever it holds
PRELOAD_Z = [("p", 0.75), ("q", 0.5)]
VOCAB = {v: set(ts) for v, ts in TERMS.items()}

LEAVES5 = [
    RG.prop("a", (), "t"),
    RG.prop("b", ("very",), "u"),
    RG.prop("a", ("not",), "u"),
    RG.prop("o", (), "p"),
    RG.prop("b", ("any",), None),
]
LEAVES3 = LEAVES5[:3]

QUICK_PAIRS = [(c, d) for c in ("AlgebraicProduct", "EinsteinProduct", "BoundedDifference")
               for d in ("AlgebraicSum", "EinsteinSum", "BoundedSum")]
ALL_PAIRS = [(c, d) for c in RN.TNORMS for d in RN.SNORMS]


def build_engine():
    def term(name, spec):
        cls, p = spec
        return getattr(fl, cls)(name, *p)

    def inp(name, enabled=True):
        return fl.InputVariable(name, enabled=enabled, minimum=0.0, maximum=1.0,
                                terms=[term(n, s) for n, s in TERMS[name].items()])

    out = fl.OutputVariable("o", minimum=0.0, maximum=1.0, aggregation=getattr(fl, OUT_AGGREGATION)(),
                            terms=[term(n, s) for n, s in TERMS["o"].items()])
    out_w = fl.OutputVariable("w", minimum=0.0, maximum=1.0, aggregation=None, terms=[term(n, s) for n, s in TERMS["w"].items()])
    out_z = fl.OutputVariable("z", minimum=0.0, maximum=1.0, aggregation=fl.Maximum(), terms=[term(n, s) for n, s in TERMS["z"].items()])
    for name, degree in PRELOAD_Z:
        out_z.fuzzy.terms.append(fl.Activated(out_z.term(name), degree, fl.Minimum()))
    out_z.enabled = False
    engine = fl.Engine("e", input_variables=[inp("a"), inp("b"), inp("d", enabled=False)], output_variables=[out, out_w, out_z],
                       rule_blocks=[fl.RuleBlock("rb")])
    for name, degree in PRELOAD:
        out.fuzzy.terms.append(fl.Activated(out.term(name), degree, fl.Minimum()))
    for name, degree in PRELOAD_W:
        out_w.fuzzy.terms.append(fl.Activated(out_w.term(name), degree, None))
    return engine


def leaf_value(p, row) -> float:
    _, var, hedges, term = p
    if var in ("d", "z"):
        return 0.0  # disabled variable (input d; output z, whose fuzzy output is not empty)
    if hedges and hedges[-1] == "any":
        return RH.apply_chain(hedges, NAN)
    if var == "o":
        mu = RW.grouped(PRELOAD, OUT_AGGREGATION).get(term, 0.0)
    elif var == "w":
        mu = RW.grouped(PRELOAD_W, None).get(term, 0.0)
    else:
        x = row[0] if var == "a" else row[1]
        cls, params = TERMS[var][term]
        mu = RT.membership(cls, params, 1.0, x)
    return RH.apply_chain(hedges, mu)


def evaluate(tree, row, conj: str, disj: str) -> float:
    if tree[0] == "prop":
        return leaf_value(tree, row)
    left = evaluate(tree[1], row, conj, disj)
    right = evaluate(tree[2], row, conj, disj)
    return RN.compute(conj if tree[0] == "and" else disj, left, right)


def leaf_forms():
    hs = ["extremely", "not", "seldom", "somewhat", "very"]
    chains = [()] + [(h,) for h in hs] + list(itertools.product(hs, repeat=2)) + [(h, "not", "very") for h in hs]
    forms = []
    for var, term in (("a", "t"), ("b", "u"), ("o", "q"), ("d", "t")):
        for c in chains:
            forms.append(RG.prop(var, c, term))
        for c in (("any",), ("not", "any"), ("very", "not", "any"), ("somewhat", "any")):
            forms.append(RG.prop(var, c, None))
    for c in ((), ("very",), ("somewhat",), ("not",)):  # an aggregated degree above 1 is read as it is (no clipping)
        forms.append(RG.prop("w", c, "p"))
        forms.append(RG.prop("w", c, "q"))
        forms.append(RG.prop("z", c, "p"))
        forms.append(RG.prop("z", c, "q"))
    return forms


def tree_space(tier: str):
    """(family, iterator of trees)."""
    if tier == "quick":
        spec = [(1, LEAVES5), (2, LEAVES5), (3, LEAVES5), (4, LEAVES3)]
    else:
        spec = [(1, LEAVES5), (2, LEAVES5), (3, LEAVES5), (4, LEAVES5), (5, LEAVES3)]
    for n, alphabet in spec:
        for t in T.trees(n, alphabet):
            yield n, t
    for f in leaf_forms():
        yield 1, f
        yield 2, ("and", f, LEAVES5[0])
        yield 2, ("or", LEAVES5[2], f)


N_SHARDS = 64


def plan(tier: str, seed: int):
    return list(range(N_SHARDS))


class Ctx:
    def __init__(self) -> None:
        self.engine = build_engine()
        self.norms = {n: getattr(fl, n)() for n in RN.TNORMS + RN.SNORMS}
        self.a, self.b = self.engine.input_variables[0], self.engine.input_variables[1]
        # long-lived rule objects that are re-parsed in place for every tree (they carry a weight of 1/4 between uses)
        self.reused = [fl.Rule.create("if a is t then o is q with 0.250", self.engine) for _ in range(2)]


def run_tree(acc: Acc, ctx: Ctx, n_leaves: int, tree, pairs) -> None:
    engine = ctx.engine
    want_postfix = RG.postfix(tree)
    rules = []
    for style in STYLES:
        text = RG.render(tree, style)
        case = {"antecedent": text, "style": style, "postfix": want_postfix}
        acc.transitions += 1
        try:
            back = RG.parse_antecedent(RG.tokenize(text), VOCAB)
        except RG.Reject as r:
            raise AssertionError(f"reference recogniser rejects its own rendering {text!r}: {r}") from None
        if back != tree:
            raise AssertionError(f"reference recogniser parses {text!r} into a different tree")
        try:
            rule = fl.Rule.create(f"if {text} then o is p", engine)
        except Exception as ex:  # noqa: BLE001
            acc.violate("valid-rejected", {"style": style, "error": type(ex).__name__}, case, "accepted",
                        f"{type(ex).__name__}: {ex}", f"valid antecedent rejected ({style}): {text!r}: {ex}")
            continue
        got_postfix = rule.antecedent.postfix()
        if got_postfix != want_postfix:
            acc.violate("postfix", {"style": style}, case, want_postfix, got_postfix,
                        f"{text!r} ({style}) parsed as {got_postfix!r}, grammar says {want_postfix!r}")
            continue
        rules.append((style, text, rule))
    if not rules:
        return
    batch_a = np.array([r[0] for r in ROWS])
    batch_b = np.array([r[1] for r in ROWS])
    for k, (style, text, rule) in enumerate(rules):
        use_pairs = pairs if k == 0 else pairs[:1]
        for conj, disj in use_pairs:
            wants = [evaluate(tree, row, conj, disj) for row in ROWS]
            acc.traces += 1
            for ri in range(len(ROWS) + 1):
                if ri < len(ROWS):
                    ctx.a.value, ctx.b.value = ROWS[ri]
                    want = [wants[ri]]
                else:
                    ctx.a.value, ctx.b.value = batch_a, batch_b
                    want = wants
                got = rule.activate_with(ctx.norms[conj], ctx.norms[disj])
                again = rule.activate_with(ctx.norms[conj], ctx.norms[disj])
                acc.transitions += 2
                if not np.array_equal(np.asarray(got, dtype=float), np.asarray(again, dtype=float), equal_nan=True):
                    acc.violate("not-repeatable", {}, {"antecedent": text, "style": style, "postfix": want_postfix, "conjunction": conj,
                                                       "disjunction": disj}, fl.Op.str(got), fl.Op.str(again),
                                f"{text!r}: the second evaluation of the same loaded rule gives {again}, the first {got}")
                g = [float(v) for v in np.atleast_1d(np.asarray(got, dtype=float))]
                if len(g) == 1 and len(want) > 1:
                    g = g * len(want)  # constant antecedent (e.g. `any`, disabled variable) broadcasts
                nontrivial = n_leaves >= 2 and any(w == w and 0.0 < w < 1.0 for w in want)
                acc.case((text, conj, disj, ri), nontrivial=nontrivial)
                case = {"antecedent": text, "style": style, "postfix": want_postfix, "conjunction": conj, "disjunction": disj,
                        "row": "batch" if ri == len(ROWS) else list(ROWS[ri])}
                if len(g) != len(want) or not all(close(x, y, 1e-12, 1e-9) for x, y in zip(g, want)):
                    acc.violate("value", {"leaves": min(n_leaves, 2)}, case, want, g,
                                f"{text!r} under {conj}/{disj} at {case['row']} = {g}, grammar value {want}")
                elif not np.array_equal(np.asarray(rule.activation_degree, dtype=float), np.asarray(got, dtype=float), equal_nan=True):
                    acc.violate("stored-degree", {}, case, g, str(rule.activation_degree), "activation_degree not stored")
    # the same value through RuleBlock.activate under every activation method (operators taken from the block)
    style, text, rule = rules[0]
    conj, disj = pairs[0]
    block = fl.RuleBlock("rb", conjunction=ctx.norms[conj], disjunction=ctx.norms[disj], implication=fl.Minimum(), rules=[rule])
    ctx.a.value, ctx.b.value = ROWS[0]
    want0 = evaluate(tree, ROWS[0], conj, disj)
    keep = list(engine.output_variables[0].fuzzy.terms)
    for method in (fl.General(), fl.First(1, 0.0), fl.Last(1, 0.0), fl.Highest(1), fl.Lowest(1), fl.Threshold(">=", 0.0)):
        block.activation = method
        block.activate()
        del engine.output_variables[0].fuzzy.terms[len(keep):]
        acc.transitions += 1
        got0 = float(rule.activation_degree)
        if not close(got0, want0, 1e-12, 1e-9):
            acc.violate("value-through-block", {"method": type(method).__name__}, {"antecedent": text, "style": style, "postfix": want_postfix,
                                                                                   "conjunction": conj, "disjunction": disj, "row": list(ROWS[0])},
                        want0, got0, f"{text!r} activated by {type(method).__name__} with {conj}/{disj}: {got0}, grammar value {want0}")
    # the stored degree survives triggering, also when the conclusions carry hedges and the inputs are arrays
    hedged = fl.Rule.create(f"if {text} then o is p and o is very p and o is not q", engine)  # (first conclusion plain: it receives the rule's own degree array)
    block.activation = fl.General()
    block.rules = [hedged]
    ctx.a.value, ctx.b.value = batch_a, batch_b
    wants = [evaluate(tree, row, conj, disj) for row in ROWS]
    block.activate()
    del engine.output_variables[0].fuzzy.terms[len(keep):]
    acc.transitions += 1
    stored = [float(v) for v in np.atleast_1d(np.asarray(hedged.activation_degree, dtype=float))]
    if len(stored) == 1:
        stored = stored * len(wants)
    if len(stored) != len(wants) or not all(close(x, y, 1e-12, 1e-9) for x, y in zip(stored, wants)):
        acc.violate("degree-after-trigger", {}, {"antecedent": text, "style": style, "postfix": want_postfix, "conjunction": conj,
                                                 "disjunction": disj, "row": "batch"}, wants, stored,
                    f"{text!r}: after triggering hedged conclusions the rule's activation degree is {stored}, grammar value {wants}")
    # a rule object that held another (weighted) rule before: re-parsed in place, a text without `with` means weight 1
    for k, reused in enumerate(ctx.reused):
        if k == 0:
            reused.parse(f"if {text} then o is p")
        else:
            reused.text = f"if {text} then o is p"
        reused.load(engine)
        ctx.a.value, ctx.b.value = ROWS[0]
        got = float(reused.activate_with(ctx.norms[conj], ctx.norms[disj]))
        acc.transitions += 1
        if not close(got, want0, 1e-12, 1e-9):
            acc.violate("weight", {"path": "reparsed-in-place"}, {"antecedent": text, "weight": None, "row": list(ROWS[0]), "conjunction": conj,
                                                                 "disjunction": disj, "postfix": want_postfix}, want0, got,
                        f"{text!r} (no weight) parsed into a rule object that held a rule with weight 0.25, at {ROWS[0]}: {got}, expected {want0}")
        reused.parse("if a is t then o is q with 0.250")
        reused.load(engine)
    # rule weights (first rendering, first operator pair)
    style, text, _ = rules[0]
    conj, disj = pairs[0]
    for w in WEIGHTS[1:] + ["0.000", "ctor:0.0", "ctor:0.25", "ctor:2.0"]:
        if w.startswith("ctor:"):  # the weight given to the Rule constructor (what the Python export of a rule does)
            w = w[5:]
            rule = fl.Rule(enabled=True, weight=float(w), antecedent=fl.Antecedent(text), consequent=fl.Consequent("o is p"))
            rule.load(engine)
        else:
            rule = fl.Rule.create(f"if {text} then o is p with {w}", engine)
        for ri, row in enumerate(ROWS[:3]):
            ctx.a.value, ctx.b.value = row
            got = float(rule.activate_with(ctx.norms[conj], ctx.norms[disj]))
            want = float(w) * evaluate(tree, row, conj, disj)
            acc.transitions += 1
            acc.case((text, w, ri), nontrivial=n_leaves >= 2)
            if not close(got, want, 1e-12, 1e-9):
                acc.violate("weight", {}, {"antecedent": text, "weight": w, "row": list(row), "conjunction": conj,
                                           "disjunction": disj, "postfix": want_postfix}, want, got,
                            f"{text!r} with {w} at {row}: {got}, expected weight x antecedent = {want}")


def run_shard(tier: str, seed: int, shard: int):
    acc = Acc(ID)
    ctx = Ctx()
    pairs_small = QUICK_PAIRS
    for idx, (n, tree) in enumerate(tree_space(tier)):
        if idx % N_SHARDS != shard:
            continue
        pairs = ALL_PAIRS if (tier == "thorough" and n <= 4) else pairs_small
        acc.states += 1
        acc.guard({"antecedent": RG.render(tree), "postfix": RG.postfix(tree)}, run_tree, acc, ctx, n, tree, pairs)
        acc.cls(f"trees_{n}_leaves")
    if shard == 3:
        t = ("or", ("and", LEAVES5[0], LEAVES5[1]), ("and", LEAVES5[2], LEAVES5[3]))
        acc.sample({"tree_postfix": RG.postfix(t), "renderings": {s: RG.render(t, s) for s in STYLES},
                    "value_AlgebraicProduct_AlgebraicSum_row0": evaluate(t, ROWS[0], "AlgebraicProduct", "AlgebraicSum")}, 1)
    return acc.result()


def summarize(tier: str, seed: int, merged: dict) -> dict:
    c = merged["classes"]
    spec = "n<=3 over 5 leaves, n=4 over 3" if tier == "quick" else "n<=4 over 5 leaves, n=5 over 3"
    vac = [] if c.get("trees_3_leaves") else ["no 3-leaf trees explored"]
    return {
        "rule": (
            f"all expression trees ({spec}) x every and/or labelling, plus {len(leaf_forms())} leaf forms (all hedge chains "
            "of length <= 2 over 5 hedges, 3-chains, any / not any / very not any, input, output and disabled variables) "
            f"alone and under and/or; 5 renderings each; operator pairs: {'all 63 (n<=4), 9 (n=5)' if tier == 'thorough' else '9'}; "
            f"rows {ROWS} and the batch of all rows; weights {WEIGHTS[1:]}; every tree also through RuleBlock.activate under 6 activation "
            "methods, triggered with hedged conclusions on the batch (stored degree re-read), and parsed into two long-lived rule objects "
            "that held a weighted rule. states = trees, transitions = rule loads + "
            "activate_with calls, traces = reference evaluations; non-trivial = >= 2 leaves and a value strictly in (0,1)"
        ),
        "exhaustive": True,
        "vacuity_errors": vac,
        "assumptions": ["names are not keywords, hedge names or formula operator/function names (DESIGN 3.1)"],
    }


def replay(case: dict):
    acc = Acc(ID)
    ctx = Ctx()
    tree = RG.parse_antecedent(RG.tokenize(case["antecedent"]), VOCAB)
    pairs = [(case.get("conjunction", QUICK_PAIRS[0][0]), case.get("disjunction", QUICK_PAIRS[0][1]))] + QUICK_PAIRS
    acc.guard(case, run_tree, acc, ctx, RG.count_leaves(tree), tree, pairs)
    return acc.violations

"""C01 - engine output equals the documented inference pipeline.

K1 + K4 over engine recipes, each complete within its bounds:
  A operators   3-rule engine (`x and y`, `x or y with 0.5`, `not x`) x conjunction(7) x disjunction(9) x implication(7)
                x aggregation(9) x integral defuzzifiers x input grid
  B terms       every shape term as input term and as output term under each integral defuzzifier; Constant / Linear /
                Function under WeightedAverage / WeightedSum; monotonic terms under Tsukamoto; inverse Tsukamoto
  C flags       2 inputs x 2 outputs x 2 blocks x 2 rules: all 2^10 assignments of the ten `enabled` flags
  D chaining    an output variable concluded earlier and used in later antecedents x aggregation {none, 9 S-norms}
                x all rule orders x block orders x activation methods
  E weights     rule weights x nested antecedents with hedges x 1-3 inputs, 1-2 outputs, 1-2 conclusions
  F activation  the same skeleton under each activation method with parameters
Driver: recipe -> real engine through the public constructors; inputs as Python floats; Engine.process().
Oracle: vmc.ref.pipeline executed on the same recipe (see vmc/enginecheck.py for what is compared).
"""

from __future__ import annotations

import itertools

from ..enginecheck import compare_step, nontrivial
from ..explore import Acc
from ..gen import recipes as R
from ..gen import trees as T
from ..ref import formula as RF
from ..ref import norms as RN
from ..ref.pipeline import Pipeline
from ..ref.rulegrammar import prop as P

ID = "C01"
LEVEL = "model_checking"
NAN, INF = float("nan"), float("inf")
INTEGRAL = ["Centroid", "Bisector", "SmallestOfMaximum", "MeanOfMaximum", "LargestOfMaximum"]


def grid(tier: str):
    vals = [0.25, 0.625, NAN] if tier == "quick" else [0.0, 0.25, 0.625, 1.5, INF, NAN]
    return list(itertools.product(vals, repeat=2))


# ----- A ---------------------------------------------------------------------------------------------------------------
def space_a(tier: str):
    defs = ["Centroid", "MeanOfMaximum"] if tier == "quick" else INTEGRAL
    rules = [
        R.rule(("and", P("x", (), "lo"), P("y", (), "hi")), [("o", (), "lo")]),
        R.rule(("or", P("x", (), "hi"), P("y", (), "lo")), [("o", (), "hi")], weight="0.500"),
        R.rule(P("x", ("not",), "lo"), [("o", (), "mid")]),
    ]
    out_terms = [R.shape("Triangle", "lo", [0.0, 0.25, 0.5]), R.shape("Triangle", "hi", [0.5, 0.75, 1.0]),
                 R.shape("Trapezoid", "mid", [0.25, 0.375, 0.625, 0.75])]
    for c, d, i, g in itertools.product(RN.TNORMS, RN.SNORMS, RN.TNORMS, RN.SNORMS):
        for df in defs:
            yield R.engine("A", [R.in_var("x"), R.in_var("y")],
                           [R.out_var("o", terms=out_terms, aggregation=g, defuzzifier=(df, 16))],
                           [R.block("rb", rules, c, d, i)]), grid(tier)


# ----- B ---------------------------------------------------------------------------------------------------------------
CANON = {
    "Arc": [0.0, 1.0], "Bell": [0.5, 0.25, 2.0], "Binary": [0.5, INF], "Concave": [0.25, 0.75], "Cosine": [0.5, 0.5],
    "Discrete": [0.0, 0.0, 0.25, 1.0, 0.5, 0.5, 1.0, 0.0], "Gaussian": [0.5, 0.25], "GaussianProduct": [0.25, 0.25, 0.75, 0.5],
    "PiShape": [0.0, 0.25, 0.5, 1.0], "Ramp": [1.0, 0.0], "Rectangle": [0.25, 0.75], "SemiEllipse": [0.0, 1.0],
    "Sigmoid": [0.5, 8.0], "SigmoidDifference": [0.25, 8.0, 8.0, 0.75], "SigmoidProduct": [0.25, 8.0, -8.0, 0.75],
    "Spike": [0.5, 1.0], "SShape": [0.0, 1.0], "Trapezoid": [0.0, 0.25, 0.5, 1.0], "Triangle": [0.0, 0.5, 1.0],
    "ZShape": [0.0, 1.0],
}
MONO_BOTH = {"Arc": [[0.0, 1.0], [1.0, 0.0]], "Concave": [[0.25, 0.75], [0.75, 0.25]], "Ramp": [[0.0, 1.0], [1.0, 0.0]],
             "Sigmoid": [[0.5, 8.0], [0.5, -8.0]], "SShape": [[0.0, 1.0]], "ZShape": [[0.0, 1.0]]}


def rows_for(cls: str, tier: str):
    from ..gen.termspace import breakpoints
    bps = sorted(set(b for b in breakpoints(cls, CANON[cls]) if b == b and abs(b) != INF))
    pts = set(bps) | {-0.5, 1.5, 0.3, 0.55}
    pts |= {0.5 * (a + b) for a, b in zip(bps, bps[1:])}
    if tier == "thorough":
        pts |= {INF, -INF, NAN, 0.1, 0.9}
    else:
        pts |= {NAN}
    return [(x,) for x in sorted(pts, key=lambda v: (v != v, v))]


def space_b(tier: str):
    classes = list(CANON)
    rules = [R.rule(P("a", (), "t"), [("o", (), "u")]), R.rule(P("a", ("not",), "t"), [("o", (), "v")], weight="0.250")]
    for cin in classes:
        ain = R.in_var("a", terms=[R.shape(cin, "t", CANON[cin], 1.0 if cin != "Triangle" else 0.5)])
        rows = rows_for(cin, tier)
        # integral: every shape as the output term
        for cout in classes:
            outs = [R.shape(cout, "u", CANON[cout]), R.shape("Triangle", "v", [0.5, 0.75, 1.0], 0.5)]
            for df in (INTEGRAL if tier == "thorough" or cout == cin else ["Centroid"]):
                yield R.engine("B", [ain], [R.out_var("o", terms=outs, aggregation="Maximum", defuzzifier=(df, 16))],
                               [R.block("rb", rules, implication="AlgebraicProduct")]), rows
        # Takagi-Sugeno
        fn = RF.parse(["2.000", "*", "a", "+", "x"])
        ts_terms = [R.shape("Constant", "u", [1.5]), {"cls": "Linear", "name": "v", "params": [2.0, 0.25]}]
        ts_terms2 = [R.function_term("u", fn), R.shape("Constant", "v", [-2.0])]
        for terms in (ts_terms, ts_terms2):
            for which in ("WeightedAverage", "WeightedSum"):
                for ty in ("Automatic", "TakagiSugeno"):
                    for g in (None, "Maximum"):
                        yield R.engine("B", [ain], [R.out_var("o", -5.0, 5.0, terms=terms, aggregation=g, defuzzifier=(which, ty))],
                                       [R.block("rb", rules, implication=None)]), rows
        # Tsukamoto and inverse Tsukamoto
        for cout, plist in MONO_BOTH.items():
            for p in plist:
                terms = [R.shape(cout, "u", p), R.shape("Ramp", "v", [0.0, 1.0])]
                for which in ("WeightedAverage", "WeightedSum"):
                    yield R.engine("B", [ain], [R.out_var("o", terms=terms, aggregation=None, defuzzifier=(which, "Automatic"))],
                                   [R.block("rb", rules, implication=None)]), rows
        inv = [R.shape("Triangle", "u", [0.0, 0.5, 1.0]), R.shape("Gaussian", "v", [0.5, 0.25])]
        yield R.engine("B", [ain], [R.out_var("o", terms=inv, aggregation="AlgebraicSum", defuzzifier=("WeightedAverage", "Automatic"))],
                       [R.block("rb", rules)]), rows


# ----- C ---------------------------------------------------------------------------------------------------------------
def space_c(tier: str):
    rows = [(0.25, 0.625), (0.625, 0.25), (0.5, 0.5)] if tier == "quick" else list(itertools.product([0.0, 0.25, 0.625], repeat=2))
    for flags in itertools.product((True, False), repeat=10):
        ia, ib, o1, o2, b1, b2, r1, r2, r3, r4 = flags
        rules1 = [R.rule(("and", P("a", (), "lo"), P("b", (), "hi")), [("o1", (), "lo"), ("o2", (), "hi")], enabled=r1),
                  R.rule(P("a", (), "hi"), [("o1", (), "hi")], enabled=r2)]
        rules2 = [R.rule(("or", ("and", P("b", (), "lo"), P("a", ("any",), None)), P("o1", (), "hi")), [("o2", (), "lo")], weight="0.500", enabled=r3),
                  R.rule(P("a", ("very",), "lo"), [("o2", (), "hi"), ("o1", (), "lo")], enabled=r4)]
        yield R.engine("C", [R.in_var("a", enabled=ia), R.in_var("b", enabled=ib)],
                       [R.out_var("o1", enabled=o1, aggregation="AlgebraicSum"), R.out_var("o2", enabled=o2, defuzzifier=("Bisector", 16))],
                       [R.block("rb1", rules1, "AlgebraicProduct", "AlgebraicSum", "Minimum", enabled=b1),
                        R.block("rb2", rules2, "Minimum", "BoundedSum", "AlgebraicProduct", enabled=b2)]), rows


# ----- D ---------------------------------------------------------------------------------------------------------------
def space_d(tier: str):
    rows = [(0.25, 0.625), (0.625, 0.875), (0.0, 1.0)] if tier == "quick" else list(itertools.product([0.0, 0.25, 0.625, 0.875, NAN], repeat=2))
    base = [
        R.rule(P("a", (), "lo"), [("o1", (), "lo")]),
        R.rule(("and", P("o1", (), "lo"), P("b", (), "hi")), [("o1", (), "hi")]),
        R.rule(P("a", (), "hi"), [("o1", (), "lo")], weight="0.500"),
    ]
    second = [R.rule(("or", P("o1", (), "hi"), P("o1", ("very",), "lo")), [("o2", (), "hi")]),
              R.rule(P("o1", ("not",), "lo"), [("o2", (), "lo")])]
    k_terms = [R.shape("Constant", "lo", [0.25]), R.shape("Constant", "hi", [0.75])]
    methods = [("General",), ("Highest", 2), ("Proportional",), ("First", 2, 0.0), ("Threshold", ">", 0.25), ("Last", 2, 0.0), ("Lowest", 2)]
    if tier == "quick":
        methods = methods[:5]  # (every method evaluates and triggers rule by rule: a later rule of the block sees the earlier conclusions)
    for aggr in [None] + RN.SNORMS:
        for order in itertools.permutations(range(3)):
            for swap in (False, True):
                for m in methods:
                    rules1 = [base[k] for k in order]
                    if aggr is None:
                        o1 = R.out_var("o1", terms=k_terms, aggregation=None, defuzzifier=("WeightedAverage", "Automatic"))
                        o2 = R.out_var("o2", terms=k_terms, aggregation=None, defuzzifier=("WeightedSum", "Automatic"))
                    else:
                        o1 = R.out_var("o1", aggregation=aggr)
                        o2 = R.out_var("o2", aggregation=aggr, defuzzifier=("MeanOfMaximum", 16))
                    blocks = [R.block("rb1", rules1, "Minimum", "Maximum", "AlgebraicProduct", activation=m),
                              R.block("rb2", second, "AlgebraicProduct", "AlgebraicSum", "Minimum")]
                    if swap:
                        blocks = blocks[::-1]
                    yield R.engine("D", [R.in_var("a"), R.in_var("b")], [o1, o2], blocks), rows


# ----- E ---------------------------------------------------------------------------------------------------------------
def space_e(tier: str):
    leaves = [P("a", (), "lo"), P("b", ("very",), "hi"), P("c", ("not", "somewhat"), "lo"), P("a", ("any",), None)]
    rows = [(0.25, 0.625, 0.875), (0.625, 0.25, 0.125), (NAN, 0.5, 0.5)]
    weights = [None, "0.000", "0.250", "0.500"]
    # (the last two: chains of two non-commuting hedges on one conclusion - applied from the term outwards)
    conss = [[("o1", (), "lo")], [("o1", (), "hi"), ("o2", ("very",), "lo")], [("o2", ("seldom",), "hi")],
             [("o1", ("not", "very"), "lo")], [("o1", (), "hi"), ("o2", ("seldom", "not"), "lo")]]
    pairs = [("AlgebraicProduct", "AlgebraicSum"), ("BoundedDifference", "EinsteinSum")]
    sizes = (1, 2, 3)
    for n in sizes:
        for tree in T.trees(n, leaves):
            reduced = n == 3 and tier == "quick"
            for w in (weights[:1] if reduced else weights):
                for cons in (conss[:1] if reduced else conss):
                    for c, d in (pairs[:1] if reduced else pairs):
                        other = R.rule(P("c", (), "hi"), [("o1", (), "lo"), ("o2", (), "hi")])
                        blocks = [R.block("rb1", [R.rule(tree, cons, weight=w), other], c, d, "Minimum")]
                        if n == 2:
                            blocks.append(R.block("rb2", [R.rule(tree, cons[:1], weight=w, style="full")], d and "Minimum", "Maximum", "AlgebraicProduct"))
                        yield R.engine("E", [R.in_var("a"), R.in_var("b"), R.in_var("c")],
                                       [R.out_var("o1"), R.out_var("o2", aggregation="BoundedSum", defuzzifier=("LargestOfMaximum", 16))],
                                       blocks), rows


# ----- F ---------------------------------------------------------------------------------------------------------------
def space_f(tier: str):
    vals = [0.0, 0.25, 0.5, 0.875] if tier == "quick" else [0.0, 0.25, 0.5, 0.625, 0.875, NAN]
    rows = list(itertools.product(vals, repeat=2))
    rules = [R.rule(P("a", (), "lo"), [("o", (), "lo")]), R.rule(P("b", (), "hi"), [("o", (), "hi")], weight="0.500"),
             R.rule(("and", P("a", (), "hi"), P("b", (), "lo")), [("o", (), "lo")], enabled=False),
             R.rule(("or", P("a", (), "lo"), P("b", (), "lo")), [("o", (), "hi")])]
    methods = [("General",), ("Proportional",), ("First", 2, 0.25), ("First", 1, 0.0), ("Last", 2, 0.5), ("Last", 1, 0.0),
               ("Highest", 1), ("Highest", 2), ("Lowest", 1), ("Lowest", 3), ("Threshold", ">=", 0.5), ("Threshold", "<", 0.5),
               ("Threshold", "==", 0.25), ("Threshold", "!=", 0.0), ("Threshold", ">", 0.0), ("Threshold", "<=", 0.25)]
    rows = rows + [(1.5, 0.25), (-0.75, 1.5)]
    if tier == "quick":
        rows = rows + [(NAN, 0.875), (0.25, NAN)]  # a NaN degree next to positive ones under every activation method
    for m in methods:
        for df in (("Centroid", 16), ("WeightedAverage", "Automatic"), ("Centroid", 16, "locked-inputs")):
            locked = len(df) == 3
            df = df[:2]
            if df[0] == "WeightedAverage":
                out = R.out_var("o", terms=[R.shape("Constant", "lo", [0.25]), R.shape("Constant", "hi", [0.75])], aggregation=None, defuzzifier=df)
            else:
                out = R.out_var("o", defuzzifier=df)
            yield R.engine("F", [R.in_var("a", lock_range=locked), R.in_var("b", lock_range=locked)], [out],
                           [R.block("rb", rules, "Minimum", "Maximum", "Minimum", activation=m)]), rows


# ----- G ---------------------------------------------------------------------------------------------------------------
def space_g(tier: str):
    """Shared operator / defuzzifier INSTANCES: two outputs of different kinds (and ranges) defuzzified by one object."""
    rows = grid(tier) if tier == "quick" else list(itertools.product([0.0, 0.25, 0.625, 1.0, NAN], repeat=2))
    rules = [R.rule(P("x", (), "lo"), [("o1", (), "lo"), ("o2", (), "hi")]),
             R.rule(("or", P("x", (), "hi"), P("y", (), "lo")), [("o2", (), "lo"), ("o1", (), "hi")], weight="0.500"),
             R.rule(P("y", ("very",), "hi"), [("o1", (), "lo"), ("o2", (), "lo")])]
    kinds = {
        "ts": [R.shape("Constant", "lo", [0.25]), R.shape("Constant", "hi", [1.5])],
        "tsukamoto": [R.shape("Ramp", "lo", [1.0, 0.0]), R.shape("Ramp", "hi", [0.0, 2.0])],
        "inverse": [R.shape("Triangle", "lo", [0.0, 0.25, 0.5]), R.shape("Gaussian", "hi", [0.75, 0.25])],
    }
    for k1, k2 in itertools.permutations(kinds, 2):
        for which in ("WeightedAverage", "WeightedSum"):
            for g in (None, "Maximum"):
                o1 = R.out_var("o1", 0.0, 2.0, terms=kinds[k1], aggregation=g, defuzzifier=(which, "Automatic"))
                o2 = R.out_var("o2", 0.0, 2.0, terms=kinds[k2], aggregation=g, defuzzifier=(which, "Automatic"))
                e = R.engine("G", [R.in_var("x"), R.in_var("y")], [o1, o2], [R.block("rb", rules, "Minimum", "Maximum", None)])
                e["shared_objects"] = True
                yield e, rows
                if g is None:
                    # range locked on [0, 1] although the weighted value reaches 1.5 / 2: the committed value is clipped
                    e2 = R.clone(e)
                    for o in e2["outputs"]:
                        o["max"], o["lock_range"] = 1.0, True
                    yield e2, rows
    for df in INTEGRAL:
        for g, i in (("Maximum", "Minimum"), ("AlgebraicSum", "AlgebraicProduct"), ("Maximum", "EinsteinProduct")):
            o1 = R.out_var("o1", 0.0, 1.0, aggregation=g, defuzzifier=(df, 16))
            o2 = R.out_var("o2", -1.0, 3.0, aggregation=g, defuzzifier=(df, 16))
            e = R.engine("G", [R.in_var("x"), R.in_var("y")], [o1, o2], [R.block("rb", rules, "Minimum", g, i)])
            e["shared_objects"] = True
            yield e, rows


# ----- H ---------------------------------------------------------------------------------------------------------------
def space_h(tier: str):
    """Operators installed through Engine.configure (by name / as objects): every (conjunction, implication) pair."""
    rules = [
        R.rule(("and", P("x", (), "lo"), P("y", (), "hi")), [("o", (), "lo")]),
        R.rule(("or", P("x", (), "hi"), P("y", (), "lo")), [("o", (), "hi")], weight="0.500"),
        R.rule(("and", P("x", ("not",), "lo"), P("y", ("somewhat",), "lo")), [("o", (), "lo"), ("o", ("very",), "hi")]),
    ]
    for how in ("names", "objects"):
        for c, i in itertools.product(RN.TNORMS, RN.TNORMS):
            for d, g, df, act in (("Maximum", "Maximum", ("Centroid", 16), ("General",)), ("AlgebraicSum", "BoundedSum", ("Bisector", 16), ("First", 2, 0.0))):
                e = R.engine("H", [R.in_var("x"), R.in_var("y")], [R.out_var("o", aggregation=g, defuzzifier=df)],
                             [R.block("rb", rules, c, d, i, activation=act)])
                e["via_configure"] = how
                yield e, grid(tier)
        e = R.engine("H", [R.in_var("x"), R.in_var("y")],
                     [R.out_var("o", terms=[R.shape("Constant", "lo", [0.25]), R.shape("Constant", "hi", [0.75])], aggregation=None,
                                defuzzifier=("WeightedAverage", "TakagiSugeno"))],
                     [R.block("rb", rules, "AlgebraicProduct", "AlgebraicSum", None, activation=("Proportional",))])
        e["via_configure"] = how
        yield e, grid(tier)


SPACES = {"A": space_a, "B": space_b, "C": space_c, "D": space_d, "E": space_e, "F": space_f, "G": space_g, "H": space_h}
PARTS = {"A": 24, "B": 12, "C": 8, "D": 8, "E": 8, "F": 2, "G": 2, "H": 2}


def plan(tier: str, seed: int):
    return [(s, p) for s, n in PARTS.items() for p in range(n)]


def run_recipe(acc: Acc, recipe: dict, rows, space: str) -> None:
    engine = R.build(recipe)
    for rb in engine.rule_blocks:  # loading a loaded rule again gives the same rule (nothing accumulates)
        for rule in rb.rules:
            if rule.is_loaded():
                rule.load(engine)
    pipe = Pipeline(recipe)
    acc.states += 1
    for row in rows:
        case = {"space": space, "recipe": recipe, "row": list(row)}
        acc.last_trace = None
        ok = compare_step(acc, case, engine, recipe, pipe, row, {"space": space})
        tr = acc.last_trace
        acc.case((space, acc.states, row), nontrivial=bool(ok and tr and nontrivial(tr["degrees"], tr["values"])))
        if tr:
            vals = list(tr["values"].values())
            acc.cls("finite_output" if any(v == v and abs(v) != INF for v in vals) else "nan_output")
            if any(len(f) >= 2 for f in tr["fuzzy"].values()):
                acc.cls("two_or_more_activations_aggregated")
        if not ok:
            break


def run_shard(tier: str, seed: int, shard):
    space, part = shard
    acc = Acc(ID)
    for idx, (recipe, rows) in enumerate(SPACES[space](tier)):
        if idx % PARTS[space] != part:
            continue
        acc.guard({"space": space, "recipe": recipe, "row": None}, run_recipe, acc, recipe, rows, space)
        acc.cls(f"engines_{space}")
    if shard == ("F", 0):
        recipe, rows = next(iter(space_f(tier)))
        acc.sample({"space": "F", "rules": [R.rule_text(r) for r in recipe["blocks"][0]["rules"]], "activation": recipe["blocks"][0]["activation"],
                    "row": list(rows[5]), "pipeline": Pipeline(recipe).step(dict(zip(["a", "b"], rows[5])))["values"]}, 1)
    return acc.result()


def summarize(tier: str, seed: int, merged: dict) -> dict:
    c = merged["classes"]
    need = [f"engines_{s}" for s in SPACES] + ["finite_output", "nan_output", "two_or_more_activations_aggregated"]
    vac = [f"outcome class {k} is empty" for k in need if not c.get(k)]
    return {
        "rule": (
            "sub-spaces H (operators installed through Engine.configure by name / as objects, all 49 conjunction x implication pairs), G (two outputs of different kinds / ranges sharing ONE defuzzifier and operator instance), A (7x9x7x9 operator assignments x integral defuzzifiers), B (20x20 input/output shape terms, "
            "Takagi-Sugeno, Tsukamoto, inverse Tsukamoto), C (all 2^10 enabled-flag assignments), D (output variables in "
            "antecedents: 10 aggregations x 6 rule orders x 2 block orders x activation methods), E (all antecedent trees "
            f"with <= {2 if tier == 'quick' else 3} leaves x 4 weights x 5 consequents (incl. two-hedge conclusions) x 2 operator pairs), F (16 activation "
            "method/parameter settings) - each enumerated completely; rows per sub-space include interior, bounds, break "
            "points, out of range, +-inf, NaN. states = engines built, transitions = Engine.process calls, traces = "
            "reference pipeline steps compared; non-trivial = a rule fired with degree in (0,1) and an output is finite"
        ),
        "exhaustive": True,
        "vacuity_errors": vac,
        "assumptions": [
            "hedged conclusions are only placed last in a consequent (the hedge leak between conclusions is C07's known finding)",
            "tie-sensitive integral defuzzifiers are decided on the implementation's sample vector after that vector has "
            "been compared point-wise with the reference membership (DESIGN 3.2-3)",
        ],
    }


def _unjson(x):
    if isinstance(x, list):
        return [_unjson(v) for v in x]
    if isinstance(x, dict):
        return {k: _unjson(v) for k, v in x.items()}
    if x in ("nan", "inf", "-inf"):
        return float(x)
    return x


def _retuple(t):
    """JSON turns the AST tuples into lists: restore them."""
    if isinstance(t, list) and t and t[0] == "prop":
        return ("prop", t[1], tuple(t[2]), t[3])
    if isinstance(t, list) and t and t[0] in ("and", "or"):
        return (t[0], _retuple(t[1]), _retuple(t[2]))
    return t


def _retuple_formula(t):
    if isinstance(t, list):
        if t[0] == "call":
            return ("call", t[1], [_retuple_formula(a) for a in t[2]])
        return tuple(_retuple_formula(a) if isinstance(a, list) else a for a in t)
    return t


def fix_recipe(recipe: dict) -> dict:
    recipe = _unjson(recipe)
    for b in recipe["blocks"]:
        for r in b["rules"]:
            r["ante"] = _retuple(r["ante"])
            r["cons"] = [(c[0], tuple(c[1]), c[2]) for c in r["cons"]]
    for v in recipe["inputs"] + recipe["outputs"]:
        for t in v["terms"]:
            if "tree" in t:
                t["tree"] = _retuple_formula(t["tree"])
    return recipe


def replay(case: dict):
    acc = Acc(ID)
    recipe = fix_recipe(case["recipe"])
    row = _unjson(case["row"])
    rows = [tuple(row)] if row else [(0.25,) * len(recipe["inputs"])]
    acc.guard(case, run_recipe, acc, recipe, rows, case.get("space", "replay"))
    return acc.violations

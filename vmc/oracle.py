"""Numeric comparison policy (DESIGN 3.2) and exception policy (DESIGN 3.3)."""

from __future__ import annotations

import math

ATOL = 1e-12
RTOL = 1e-9

ALLOWED_REJECTIONS = (SyntaxError, ValueError, KeyError)
INTERNAL_ERRORS = (
    TypeError,
    AttributeError,
    IndexError,
    RecursionError,
    UnboundLocalError,
    AssertionError,
    ZeroDivisionError,
    NameError,
)


def same(a: float, b: float) -> bool:
    """Exact equality with NaN == NaN and -0.0 == 0.0."""
    if a != a and b != b:
        return True
    return a == b


def close(a: float, b: float, atol: float = ATOL, rtol: float = RTOL) -> bool:
    """Tolerance equality (3.2-2); NaN equals NaN, infinities must match exactly."""
    if a != a or b != b:
        return a != a and b != b
    if math.isinf(a) or math.isinf(b):
        return a == b
    return abs(a - b) <= atol + rtol * max(abs(a), abs(b))


def close_seq(a, b, atol: float = ATOL, rtol: float = RTOL) -> bool:
    a = list(a)
    b = list(b)
    return len(a) == len(b) and all(close(x, y, atol, rtol) for x, y in zip(a, b))


def ulp(x: float) -> float:
    return math.ulp(x) if math.isfinite(x) else 0.0


def leq(a: float, b: float, slack_ulps: int = 4) -> bool:
    """a <= b with a few-ulp slack (3.2-4)."""
    if a != a or b != b:
        return False
    return a <= b + slack_ulps * max(ulp(a), ulp(b))


def classify_exception(ex: BaseException) -> str:
    """'clean' for the allowed rejection classes, 'internal' otherwise."""
    if isinstance(ex, INTERNAL_ERRORS):
        return "internal"
    if isinstance(ex, ALLOWED_REJECTIONS):
        return "clean"
    if isinstance(ex, RuntimeError):
        return "runtime"
    return "internal"

"""Reference model of the six registered hedges: the `Note: Equation` of each class in fuzzylite/hedge.py.

Pure Python floats (IEEE-754 semantics for NaN/inf spelled out by hand, because `math` raises where numpy returns NaN).
No numpy, no fuzzylite.
"""

from __future__ import annotations

import math

NAN = float("nan")
INF = float("inf")


def _sqrt(x: float) -> float:
    if x != x or x < 0.0:
        return NAN
    return math.sqrt(x)


def _sq(x: float) -> float:
    try:
        return x * x
    except OverflowError:  # pragma: no cover - float multiplication does not raise
        return INF


def h_any(x: float) -> float:
    return 1.0


def h_extremely(x: float) -> float:
    if x != x:
        return NAN
    if x <= 0.5:
        return 2.0 * _sq(x)
    return 1.0 - 2.0 * _sq(1.0 - x)


def h_not(x: float) -> float:
    return 1.0 - x


def h_seldom(x: float) -> float:
    if x != x:
        return NAN
    if x <= 0.5:
        return _sqrt(x / 2.0)
    return 1.0 - _sqrt((1.0 - x) / 2.0)


def h_somewhat(x: float) -> float:
    return _sqrt(x)


def h_very(x: float) -> float:
    return _sq(x)


HEDGES = {
    "any": h_any,
    "extremely": h_extremely,
    "not": h_not,
    "seldom": h_seldom,
    "somewhat": h_somewhat,
    "very": h_very,
}


def apply_chain(names, x: float) -> float:
    """`v is h1 h2 t`: hedges apply from the one nearest the term outwards, i.e. h1(h2(mu))."""
    for name in reversed(list(names)):
        x = HEDGES[name](x)
    return x


def store_degree(x: float) -> float:
    """Replacement made when an activation degree is stored: NaN and -inf -> 0, +inf -> 1."""
    if x != x or x == -INF:
        return 0.0
    if x == INF:
        return 1.0
    return x

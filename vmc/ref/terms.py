"""Reference model of the linguistic terms: the `Note: Equation` block of each class in fuzzylite/term.py,
evaluated with `math` on plain floats.  No numpy, no fuzzylite.

membership(cls, params, height, x) -> float
tsukamoto(cls, params, height, y)  -> float      (closed-form inverses from the tsukamoto docstrings)

Readings where a docstring is loose (each is the only reading under which the stated range [0, h] / the figure holds):
* Arc: the quarter circle is centred at `end` with radius |end - start|; beyond `end` the value is h, before `start` 0.
* SigmoidDifference: h * |a - b| (the docstring omits the absolute value; without it the value can be negative).
* ZShape: `1 if x <= s` is read as `h`.
* Discrete: h * linear interpolation of the (x, y) pairs, end values held outside the abscissae (numpy.interp).
* Binary: direction is +-inf; implemented as documented (x >= s when d = inf, x <= s when d = -inf).
"""

from __future__ import annotations

import math

NAN = float("nan")
INF = float("inf")

MONOTONIC = ("Arc", "Concave", "Ramp", "Sigmoid", "SShape", "ZShape")


def _exp(v: float) -> float:
    if v != v:
        return NAN
    try:
        return math.exp(v)
    except OverflowError:
        return INF


def _pow(b: float, e: float) -> float:
    try:
        return math.pow(b, e)
    except OverflowError:
        return INF
    except ValueError:
        return NAN


def _sqrt0(v: float) -> float:
    """Square root of a radicand that is mathematically >= 0 (tiny negatives are rounding)."""
    if v != v:
        return NAN
    return math.sqrt(v) if v > 0.0 else 0.0


def _sigmoid(x: float, i: float, s: float) -> float:
    e = _exp(-s * (x - i))
    return 1.0 / (1.0 + e) if e != INF else 0.0


def _gauss(x: float, m: float, sd: float) -> float:
    d = x - m
    if math.isinf(d):
        return 0.0
    return _exp(-(d * d) / (2.0 * sd * sd))


def _sshape(x: float, s: float, e: float) -> float:
    if x <= s:
        return 0.0
    if x <= 0.5 * (s + e):
        return 2.0 * ((x - s) / (e - s)) ** 2
    if x < e:
        return 1.0 - 2.0 * ((x - e) / (e - s)) ** 2
    return 1.0


def _zshape(x: float, s: float, e: float) -> float:
    if x <= s:
        return 1.0
    if x < 0.5 * (s + e):
        return 1.0 - 2.0 * ((x - s) / (e - s)) ** 2
    if x < e:
        return 2.0 * ((x - e) / (e - s)) ** 2
    return 0.0


def _interp(x: float, xs: list[float], ys: list[float]) -> float:
    if x <= xs[0]:
        return ys[0]
    if x >= xs[-1]:
        return ys[-1]
    for k in range(len(xs) - 1):
        if xs[k] <= x <= xs[k + 1]:
            if xs[k + 1] == xs[k]:
                return ys[k + 1]
            slope = (ys[k + 1] - ys[k]) / (xs[k + 1] - xs[k])
            return slope * (x - xs[k]) + ys[k]
    return NAN


def unit(cls: str, p: list[float], x: float) -> float:
    """Membership for height 1 (the caller multiplies by the height); x is not NaN."""
    if cls == "Arc":
        s, e = p
        r = e - s
        if s < e:
            if x < s:
                return 0.0
            if x > e:
                return 1.0
        else:
            if x > s:
                return 0.0
            if x < e:
                return 1.0
        return _sqrt0(r * r - (x - e) ** 2) / abs(r)
    if cls == "Bell":
        c, w, s = p
        return 1.0 / (1.0 + _pow(abs(x - c) / w, 2.0 * s))
    if cls == "Binary":
        s, d = p
        return 1.0 if (d == INF and x >= s) or (d == -INF and x <= s) else 0.0
    if cls == "Concave":
        i, e = p
        if i <= e and x < e:
            return (e - i) / (2.0 * e - i - x) if x != -INF else 0.0
        if i > e and x > e:
            return (i - e) / (-2.0 * e + i + x) if x != INF else 0.0
        return 1.0
    if cls == "Cosine":
        c, w = p
        if c - w / 2.0 <= x <= c + w / 2.0:
            return 0.5 * (1.0 + math.cos(2.0 / w * math.pi * (x - c)))
        return 0.0
    if cls == "Discrete":
        xs, ys = p[0::2], p[1::2]
        return _interp(x, xs, ys)
    if cls == "Gaussian":
        m, sd = p
        return _gauss(x, m, sd)
    if cls == "GaussianProduct":
        ma, sa, mb, sb = p
        a = _gauss(x, ma, sa) if x < ma else 1.0
        b = _gauss(x, mb, sb) if x > mb else 1.0
        return a * b
    if cls == "PiShape":
        a, b, c, d = p
        return _sshape(x, a, b) * _zshape(x, c, d)
    if cls == "Ramp":
        s, e = p
        if s < x < e:
            return (x - s) / (e - s)
        if e < x < s:
            return (s - x) / (s - e)
        if s < e and x >= e:
            return 1.0
        if s > e and x <= e:
            return 1.0
        return 0.0
    if cls == "Rectangle":
        s, e = min(p), max(p)
        return 1.0 if s <= x <= e else 0.0
    if cls == "SemiEllipse":
        s, e = min(p), max(p)
        if x < s or x > e:
            return 0.0
        r = (e - s) / 2.0
        c = (s + e) / 2.0
        return _sqrt0(r * r - (x - c) ** 2) / r
    if cls == "Sigmoid":
        i, s = p
        return _sigmoid(x, i, s)
    if cls == "SigmoidDifference":
        left, rising, falling, right = p
        return abs(_sigmoid(x, left, rising) - _sigmoid(x, right, falling))
    if cls == "SigmoidProduct":
        left, rising, falling, right = p
        return _sigmoid(x, left, rising) * _sigmoid(x, right, falling)
    if cls == "Spike":
        c, w = p
        return _exp(-abs(10.0 / w * (x - c)))
    if cls == "SShape":
        return _sshape(x, p[0], p[1])
    if cls == "ZShape":
        return _zshape(x, p[0], p[1])
    if cls == "Trapezoid":
        a, b, c, d = p
        if x < a or x > d:
            return 0.0
        if (b <= x <= c) or (a == -INF and x < b) or (d == INF and x > c):
            return 1.0
        if x < b:
            return (x - a) / (b - a)
        return (d - x) / (d - c)
    if cls == "Triangle":
        a, b, c = p
        if x < a or x > c:
            return 0.0
        if x == b or (a == -INF and x < b) or (c == INF and x > b):
            return 1.0
        if x < b:
            return (x - a) / (b - a)
        return (c - x) / (c - b)
    raise KeyError(cls)


def membership(cls: str, params: list[float], height: float, x: float) -> float:
    if cls == "Constant":
        return params[0]
    if x != x:
        return NAN
    return height * unit(cls, params, x)


def direction(cls: str, p: list[float]) -> int:
    """+1 increasing, -1 decreasing (for the terms that declare themselves monotonic)."""
    if cls in ("Arc", "Ramp"):
        return 1 if p[0] < p[1] else -1
    if cls == "Concave":
        return 1 if p[0] <= p[1] else -1
    if cls == "Sigmoid":
        return 1 if p[1] > 0 else -1
    if cls == "SShape":
        return 1
    if cls == "ZShape":
        return -1
    raise KeyError(cls)


def _div(a: float, b: float) -> float:
    if b == 0.0:
        if a != a or a == 0.0:
            return NAN
        return math.copysign(INF, a) * math.copysign(1.0, b)
    return a / b


def _log(v: float) -> float:
    if v != v or v < 0.0:
        return NAN
    if v == 0.0:
        return -INF
    if v == INF:
        return INF
    return math.log(v)


def _sqrtn(v: float) -> float:
    if v != v or v < 0.0:
        return NAN
    return math.sqrt(v)


def tsukamoto(cls: str, p: list[float], h: float, y: float) -> float:
    """Closed-form inverse z(y) with mu(z) = y, from the tsukamoto docstrings (total: IEEE results outside (0,h))."""
    if y != y:
        return NAN
    if cls == "Arc":
        s, e = p
        r = e - s
        root = _sqrtn(r * r - (y * r / h) ** 2)
        return e - root if s < e else e + root
    if cls == "Concave":
        i, e = p
        return _div(h * (i - e), y) + 2.0 * e - i
    if cls == "Ramp":
        s, e = p
        return s + (e - s) * y / h
    if cls == "Sigmoid":
        i, s = p
        return i + _div(_log(_div(h, y) - 1.0), -s)
    if cls == "SShape":
        s, e = p
        if y <= h / 2.0:
            return s + (e - s) * _sqrtn(y / (2.0 * h))
        return e - (e - s) * _sqrtn((h - y) / (2.0 * h))
    if cls == "ZShape":
        s, e = p
        if y <= h / 2.0:
            return e - (e - s) * _sqrtn(y / (2.0 * h))
        return s + (e - s) * _sqrtn((h - y) / (2.0 * h))
    raise KeyError(cls)

"""Reference model of the documented inference pipeline (Engine.process docstring, Activated/Aggregated equations,
activation method docstrings, OutputVariable.defuzzify cascade) on plain floats.  No numpy, no fuzzylite.

Engines are described by JSON-able *recipes* (see vmc/gen/recipes.py for the format and the builder of the real
engine).  `Pipeline(recipe)` keeps the state that survives a processing step (value / previous value of each output
variable); `step(inputs)` executes one Engine.process() and returns everything a check can observe.
"""

from __future__ import annotations

import math

from . import defuzz as RD
from . import formula as RF
from . import hedges as RH
from . import norms as RN
from . import terms as RT
from . import weighted as RW
from .activation import COMPARATORS
from .cascade import Cascade

NAN = float("nan")
TS_CLASSES = ("Constant", "Linear", "Function")


class MissingOperator(Exception):
    """The documented pipeline needs an operator the engine does not have (the real engine raises ValueError)."""


def term_value(term: dict, x: float, env: dict) -> float:
    """mu_term(x); Linear/Function read the engine's current values from env."""
    cls = term["cls"]
    if cls == "Linear":
        coeffs = term["params"]
        ins = env["__inputs__"]
        total = 0.0
        for c, name in zip(coeffs, ins):
            total += c * env[name]
        return total + (coeffs[len(ins)] if len(coeffs) > len(ins) else 0.0)
    if cls == "Function":
        e = dict(env)
        e["x"] = x
        return RF.evaluate(term["tree"], e)
    return RT.membership(cls, term["params"], term.get("height", 1.0), x)


class Pipeline:
    def __init__(self, recipe: dict) -> None:
        self.recipe = recipe
        self.outs = {o["name"]: o for o in recipe["outputs"]}
        self.ins = {i["name"]: i for i in recipe["inputs"]}
        self.cascade = {
            o["name"]: Cascade(o.get("lock_previous", False), o.get("default", NAN), o.get("lock_range", False),
                               o["min"], o["max"])
            for o in recipe["outputs"]
        }

    def restart(self) -> None:
        for c in self.cascade.values():
            c.clear()

    # ------------------------------------------------------------------------------------------------------------
    def antecedent(self, tree, block, inputs, fuzzy) -> float:
        if tree[0] == "prop":
            _, var, hedges, tname = tree
            if var in self.ins:
                v = self.ins[var]
                if not v.get("enabled", True):
                    return 0.0
                if hedges and hedges[-1] == "any":
                    return RH.apply_chain(hedges, NAN)
                term = next(t for t in v["terms"] if t["name"] == tname)
                mu = term_value(term, inputs[var], self.env(inputs))
            else:
                o = self.outs[var]
                if not o.get("enabled", True):
                    return 0.0
                if hedges and hedges[-1] == "any":
                    return RH.apply_chain(hedges, NAN)
                acts = [(n, d) for n, d, _ in fuzzy[var]]
                mu = RW.grouped(acts, o.get("aggregation")).get(tname, 0.0)
            return RH.apply_chain(hedges, mu)
        left = self.antecedent(tree[1], block, inputs, fuzzy)
        right = self.antecedent(tree[2], block, inputs, fuzzy)
        op = block.get("conjunction") if tree[0] == "and" else block.get("disjunction")
        if op is None:
            raise MissingOperator("conjunction" if tree[0] == "and" else "disjunction")
        return RN.compute(op, left, right)

    def env(self, inputs) -> dict:
        e = {name: inputs[name] for name in self.ins}
        for name, c in self.cascade.items():
            e[name] = c.value[-1]
        e["__inputs__"] = list(self.ins)
        return e

    # ------------------------------------------------------------------------------------------------------------
    def activate_block(self, block, inputs, fuzzy, trace) -> None:
        rules = block["rules"]
        n = len(rules)
        method, *params = block["activation"]
        stored = [0.0] * n
        triggered = [False] * n

        def degree(k: int) -> float:
            r = rules[k]
            w = float(r["weight"]) if r.get("weight") is not None else 1.0
            stored[k] = w * self.antecedent(r["ante"], block, inputs, fuzzy)
            return stored[k]

        def trigger(k: int) -> None:
            r = rules[k]
            if not r.get("enabled", True):
                return
            for var, hedges, tname in r["cons"]:
                if self.outs[var].get("enabled", True):
                    d = RH.store_degree(RH.apply_chain(hedges, stored[k]))
                    fuzzy[var].append((tname, d, block.get("implication")))
            triggered[k] = stored[k] > 0.0

        if method == "General":
            for k in range(n):
                degree(k)
                trigger(k)
        elif method in ("First", "Last"):
            count, threshold = params
            activated = 0
            for k in (range(n) if method == "First" else range(n - 1, -1, -1)):
                d = degree(k)
                if activated < count and d > 0.0 and d >= threshold:
                    trigger(k)
                    activated += 1
        elif method in ("Highest", "Lowest"):
            (count,) = params
            sign = -1.0 if method == "Highest" else 1.0
            cands = []
            for k in range(n):
                d = degree(k)
                if d > 0.0:
                    cands.append((sign * d, k))
            for _, k in sorted(cands)[: max(0, count)]:
                trigger(k)
        elif method == "Proportional":
            cands = []
            total = 0.0
            for k in range(n):
                d = degree(k)
                if d > 0.0:
                    cands.append(k)
                    total += d
            for k in cands:
                stored[k] = stored[k] / total
                trigger(k)
        elif method == "Threshold":
            comparator, threshold = params
            for k in range(n):
                d = degree(k)
                if COMPARATORS[comparator](d, threshold):
                    trigger(k)
        else:
            raise KeyError(method)
        trace["degrees"][block["name"]] = stored
        trace["triggered"][block["name"]] = triggered

    # ------------------------------------------------------------------------------------------------------------
    def membership(self, out: dict, acts, x: float, env) -> float:
        """Aggregated membership: fold the aggregation over implication(degree, mu_term(x))."""
        y = 0.0
        for tname, d, implication in acts:
            term = next(t for t in out["terms"] if t["name"] == tname)
            if implication is None:
                raise MissingOperator("implication")
            if out.get("aggregation") is None:
                raise MissingOperator("aggregation")
            y = RN.compute(out["aggregation"], y, RN.compute(implication, d, term_value(term, x, env)))
        return y

    def weighted_terms(self, out: dict, env) -> dict:
        desc = {}
        for t in out["terms"]:
            cls = t["cls"]
            if cls in TS_CLASSES:
                kind = "ts"
            elif cls in RT.MONOTONIC:
                kind = "tsukamoto"
            else:
                kind = "inverse"
            desc[t["name"]] = {
                "kind": kind,
                "z": (lambda w, tt=t: term_value(tt, w, env)),
                "tsukamoto": (lambda w, tt=t: RT.tsukamoto(tt["cls"], tt["params"], tt.get("height", 1.0), w))
                if kind == "tsukamoto" else None,
            }
        return desc

    def defuzzify(self, out: dict, acts, env, sampled=None):
        """Return the raw defuzzified value. For integral defuzzifiers `sampled` may carry the implementation's own
        (x, y) sample vectors, on which the tie-sensitive decision is taken (DESIGN 3.2-3)."""
        name, *params = out["defuzzifier"]
        if name in RD.DEFUZZIFIERS:
            res = params[0] if params else 1000
            if sampled is not None:
                xs, ys = sampled
            else:
                xs = RD.midpoints(out["min"], out["max"], res)
                ys = [self.membership(out, acts, x, env) for x in xs]
            return RD.DEFUZZIFIERS[name](xs, ys)
        type_ = params[0] if params else "Automatic"
        return RW.defuzzify(name, type_, [(n, d) for n, d, _ in acts], out.get("aggregation"), self.weighted_terms(out, env))

    def step(self, inputs: dict, sampled: dict | None = None) -> dict:
        """One Engine.process(). `sampled[out]` = (xs, ys) sample vectors of the implementation (optional)."""
        inputs = dict(inputs)
        for name, v in self.ins.items():
            x = inputs[name]
            if v.get("lock_range") and x == x:  # the value setter clips when lock-range is on (NaN stays NaN)
                inputs[name] = min(max(x, v["min"]), v["max"])
        fuzzy = {name: [] for name in self.outs}
        trace = {"degrees": {}, "triggered": {}, "fuzzy": fuzzy, "values": {}, "raw": {}}
        for block in self.recipe["blocks"]:
            if block.get("enabled", True):
                self.activate_block(block, inputs, fuzzy, trace)
        for o in self.recipe["outputs"]:
            name = o["name"]
            c = self.cascade[name]
            if o.get("enabled", True):
                env = self.env(inputs)
                raw = self.defuzzify(o, fuzzy[name], env, None if sampled is None else sampled.get(name))
                trace["raw"][name] = raw
                c.defuzzify([raw])
            trace["values"][name] = c.value[-1]
        return trace

    def sample_membership(self, out_name: str, acts, inputs, xs):
        o = self.outs[out_name]
        env = self.env(inputs)
        return [self.membership(o, acts, x, env) for x in xs]


def is_finite(x: float) -> bool:
    return math.isfinite(x)

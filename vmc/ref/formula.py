"""Reference model of the Function formula language (operator/function tables of FunctionFactory in
fuzzylite/factory.py and the C17 statement).  No numpy, no fuzzylite.

Trees:  ("num", "2.000") | ("var", name) | ("call", name, [args])      (pi is ("call", "pi", []))
        ("un", op, child) | ("bin", op, left, right)

Operator table (level, associativity):  ! ~ (0, right, prefix)   ^ ** (1, right)   .- .+ (1, right, prefix)
                                        * / % (2, left)   + - (3, left)   and (4, left)   or (5, left)
"""

from __future__ import annotations

import math

NAN = float("nan")
INF = float("inf")

PREC = {"!": 100, "~": 100, "^": 90, "**": 90, ".-": 90, ".+": 90, "*": 80, "/": 80, "%": 80, "+": 70, "-": 70,
        "and": 60, "or": 50}
RIGHT = {"!", "~", "^", "**", ".-", ".+"}
UNARY = ("!", "~", ".-", ".+")
BINARY = ("^", "**", "*", "/", "%", "+", "-", "and", "or")
LOGICAL = {"!", "and", "or"}
ARITY = {
    "gt": 2, "ge": 2, "eq": 2, "neq": 2, "le": 2, "lt": 2, "min": 2, "max": 2,
    "acos": 1, "asin": 1, "atan": 1, "ceil": 1, "cos": 1, "cosh": 1, "exp": 1, "abs": 1, "fabs": 1, "floor": 1,
    "log": 1, "log10": 1, "round": 1, "sin": 1, "sinh": 1, "sqrt": 1, "tan": 1, "tanh": 1, "log1p": 1, "acosh": 1,
    "asinh": 1, "atanh": 1, "pow": 2, "atan2": 2, "fmod": 2, "pi": 0,
}


# ---------------------------------------------------------------------------------------------------------------------
# numeric meaning (IEEE semantics written out)
# ---------------------------------------------------------------------------------------------------------------------
def _truth(v: float) -> bool:
    return v != 0.0  # NaN is truthy


def _guard(fn, *args, domain=NAN):
    try:
        return fn(*args)
    except ValueError:
        return domain
    except OverflowError:
        return INF


def _odd_integer(y: float) -> bool:
    return math.isfinite(y) and y == math.floor(y) and math.fmod(y, 2.0) != 0.0


def f_pow(x: float, y: float) -> float:
    if x != x or y != y:
        if y == 0.0 or x == 1.0:
            return 1.0
        return NAN
    if x == 0.0 and y < 0.0:
        return math.copysign(INF, x) if _odd_integer(y) else INF
    try:
        return math.pow(x, y)
    except ValueError:
        return NAN
    except OverflowError:
        return -INF if (x < 0 and _odd_integer(y)) else INF


def f_div(x: float, y: float) -> float:
    if y == 0.0:
        if x != x or x == 0.0:
            return NAN
        return math.copysign(INF, x) * math.copysign(1.0, y)
    return x / y


def f_mod(x: float, y: float) -> float:
    """numpy.remainder: floored remainder (sign of the divisor)."""
    if x != x or y != y or y == 0.0 or math.isinf(x):
        return NAN
    return x % y


def f_fmod(x: float, y: float) -> float:
    if x != x or y != y or y == 0.0 or math.isinf(x):
        return NAN
    return math.fmod(x, y)


def f_round(x: float) -> float:
    if x != x or math.isinf(x):
        return x
    return float(round(x))


def f_log(x: float) -> float:
    if x != x or x < 0:
        return NAN
    if x == 0:
        return -INF
    return math.log(x)


def f_log10(x: float) -> float:
    if x != x or x < 0:
        return NAN
    if x == 0:
        return -INF
    return math.log10(x)


def f_log1p(x: float) -> float:
    if x != x or x < -1:
        return NAN
    if x == -1:
        return -INF
    return math.log1p(x)


def f_atanh(x: float) -> float:
    if x != x or abs(x) > 1:
        return NAN
    if abs(x) == 1:
        return math.copysign(INF, x)
    return math.atanh(x)


def f_eq(a: float, b: float) -> float:
    return 1.0 if (a == b or (a != a and b != b)) else 0.0


def f_min(a: float, b: float) -> float:
    if a != a or b != b:
        return NAN
    return a if a <= b else b


def f_max(a: float, b: float) -> float:
    if a != a or b != b:
        return NAN
    return a if a >= b else b


def _trig(fn):
    def g(x):
        if x != x or math.isinf(x):
            return NAN
        return fn(x)
    return g


FUNCTIONS = {
    "gt": lambda a, b: 1.0 if a > b else 0.0,
    "ge": lambda a, b: 1.0 if (a >= b or f_eq(a, b)) else 0.0,
    "eq": f_eq,
    "neq": lambda a, b: 1.0 - f_eq(a, b),
    "le": lambda a, b: 1.0 if (a <= b or f_eq(a, b)) else 0.0,
    "lt": lambda a, b: 1.0 if a < b else 0.0,
    "min": f_min,
    "max": f_max,
    "acos": lambda x: _guard(math.acos, x),
    "asin": lambda x: _guard(math.asin, x),
    "atan": lambda x: math.atan(x) if x == x else NAN,
    "ceil": lambda x: float(math.ceil(x)) if math.isfinite(x) else x,
    "cos": _trig(math.cos),
    "cosh": lambda x: _guard(math.cosh, x) if x == x else NAN,
    "exp": lambda x: _guard(math.exp, x) if x == x else NAN,
    "abs": lambda x: abs(x),
    "fabs": lambda x: abs(x),
    "floor": lambda x: float(math.floor(x)) if math.isfinite(x) else x,
    "log": f_log,
    "log10": f_log10,
    "round": f_round,
    "sin": _trig(math.sin),
    "sinh": lambda x: (math.copysign(INF, x) if _guard(math.sinh, x) == INF else _guard(math.sinh, x)) if x == x else NAN,
    "sqrt": lambda x: math.sqrt(x) if x >= 0 else NAN,
    "tan": _trig(math.tan),
    "tanh": lambda x: math.tanh(x) if x == x else NAN,
    "log1p": f_log1p,
    "acosh": lambda x: _guard(math.acosh, x) if x == x else NAN,
    "asinh": lambda x: math.asinh(x) if x == x else NAN,
    "atanh": f_atanh,
    "pow": f_pow,
    "atan2": lambda a, b: math.atan2(a, b) if (a == a and b == b) else NAN,
    "fmod": f_fmod,
    "pi": lambda: math.pi,
}


def apply_unary(op: str, v: float) -> float:
    if op == "!":
        return 0.0 if _truth(v) else 1.0
    if op in ("~", ".-"):
        return -v
    return v


def apply_binary(op: str, a: float, b: float) -> float:
    if op in ("^", "**"):
        return f_pow(a, b)
    if op == "*":
        return a * b
    if op == "/":
        return f_div(a, b)
    if op == "%":
        return f_mod(a, b)
    if op == "+":
        return a + b
    if op == "-":
        return a - b
    if op == "and":
        return 1.0 if (_truth(a) and _truth(b)) else 0.0
    if op == "or":
        return 1.0 if (_truth(a) or _truth(b)) else 0.0
    raise KeyError(op)


def evaluate(tree, env: dict[str, float]) -> float:
    kind = tree[0]
    if kind == "num":
        return float(tree[1])
    if kind == "var":
        return env[tree[1]]
    if kind == "call":
        return float(FUNCTIONS[tree[1]](*[evaluate(a, env) for a in tree[2]]))
    if kind == "un":
        return apply_unary(tree[1], evaluate(tree[2], env))
    if kind == "bin":
        return apply_binary(tree[1], evaluate(tree[2], env), evaluate(tree[3], env))
    raise KeyError(kind)


def evaluate_rpn(postfix: str, env: dict[str, float]) -> float:
    """Evaluate a postfix string (as printed by Function.Node.postfix) with the documented meanings."""
    stack: list[float] = []
    for tok in postfix.split():
        if tok in UNARY:
            stack.append(apply_unary(tok, stack.pop()))
        elif tok in BINARY:
            b = stack.pop()
            a = stack.pop()
            stack.append(apply_binary(tok, a, b))
        elif tok in ARITY:
            n = ARITY[tok]
            args = [stack.pop() for _ in range(n)][::-1]
            stack.append(float(FUNCTIONS[tok](*args)))
        elif tok in env:
            stack.append(env[tok])
        else:
            stack.append(float(tok))
    if len(stack) != 1:
        raise ValueError(f"postfix does not reduce to one value: {postfix}")
    return stack[0]


# ---------------------------------------------------------------------------------------------------------------------
# typing, printing
# ---------------------------------------------------------------------------------------------------------------------
def is_logical(tree) -> bool:
    return (tree[0] == "un" and tree[1] == "!") or (tree[0] == "bin" and tree[1] in ("and", "or"))


def well_typed(tree, root: bool = True) -> bool:
    """Truth-valued and/or/! results are used only under logical operators or as the final result."""
    kind = tree[0]
    if kind in ("num", "var"):
        return True
    if kind == "call":
        return all(not is_logical(a) and well_typed(a, False) for a in tree[2])
    children = tree[2:]
    if tree[1] in LOGICAL:
        return all(well_typed(c, False) for c in children)
    return all(not is_logical(c) and well_typed(c, False) for c in children)


def prec_of(tree) -> int:
    if tree[0] in ("un", "bin"):
        return PREC[tree[1]]
    return 1000


def tokens(tree, style: str = "minimal") -> list[str]:
    """Token list of the tree. styles: minimal (parentheses where the table requires them), full (every operator
    node parenthesised)."""
    kind = tree[0]
    if kind in ("num", "var"):
        return [tree[1]]
    if kind == "call":
        if not tree[2]:
            return [tree[1]]
        out = [tree[1], "("]
        for k, a in enumerate(tree[2]):
            if k:
                out.append(",")
            out += tokens(a, style)
        return out + [")"]

    def wrap(child, need: bool):
        t = tokens(child, style)
        if style == "full":
            return t  # operator children wrap themselves
        return ["("] + t + [")"] if need else t

    if kind == "un":
        op, c = tree[1], tree[2]
        body = [op] + wrap(c, prec_of(c) < PREC[op])
    else:
        op, l, r = tree[1], tree[2], tree[3]
        p = PREC[op]
        right_assoc = op in RIGHT
        if l[0] == "un":
            # `u a op b` groups as (u a) op b iff op is popped past u by the table
            groups_left = (not right_assoc and p <= PREC[l[1]]) or (right_assoc and p < PREC[l[1]])
            need_l = not groups_left
        else:
            need_l = prec_of(l) < p or (prec_of(l) == p and right_assoc)
        need_r = prec_of(r) < p or (prec_of(r) == p and not right_assoc and r[0] == "bin")
        body = wrap(l, need_l) + [op] + wrap(r, need_r)
    if style == "full":
        return ["("] + body + [")"]
    return body


def render(tree, style: str = "minimal") -> str:
    if style == "nospace":
        toks = tokens(tree, "minimal")
        out = ""
        for t in toks:
            if t in ("and", "or"):
                out += f" {t} "
            else:
                out += t
        return out.strip()
    return " ".join(tokens(tree, style))


def postfix(tree) -> str:
    kind = tree[0]
    if kind in ("num", "var"):
        return tree[1]
    if kind == "call":
        return " ".join([postfix(a) for a in tree[2]] + [tree[1]])
    if kind == "un":
        return f"{postfix(tree[2])} {tree[1]}"
    return f"{postfix(tree[2])} {postfix(tree[3])} {tree[1]}"


def size(tree) -> int:
    if tree[0] in ("num", "var"):
        return 0
    if tree[0] == "call":
        return 1 + sum(size(a) for a in tree[2])
    return 1 + sum(size(c) for c in tree[2:])


# ---------------------------------------------------------------------------------------------------------------------
# Pratt parser of the documented table (used for operator chains and replays)
# ---------------------------------------------------------------------------------------------------------------------
class ParseError(Exception):
    pass


def parse(toks: list[str]):
    pos = 0

    def peek():
        return toks[pos] if pos < len(toks) else None

    def take():
        nonlocal pos
        t = peek()
        if t is None:
            raise ParseError("unexpected end")
        pos += 1
        return t

    def primary():
        t = take()
        if t == "(":
            e = expr(0)
            if take() != ")":
                raise ParseError("expected )")
            return e
        if t in UNARY:
            operand = expr(PREC[t])  # right-associative prefix: operand binds at least as tightly
            return ("un", t, operand)
        if t in ARITY:
            if ARITY[t] == 0:
                return ("call", t, [])
            if take() != "(":
                raise ParseError("expected ( after function")
            args = [expr(0)]
            while peek() == ",":
                take()
                args.append(expr(0))
            if take() != ")":
                raise ParseError("expected )")
            if len(args) != ARITY[t]:
                raise ParseError("wrong arity")
            return ("call", t, args)
        if t in BINARY or t in (")", ","):
            raise ParseError(f"unexpected {t}")
        try:
            float(t)
            return ("num", t)
        except ValueError:
            return ("var", t)

    def expr(min_prec: int):
        left = primary()
        while True:
            t = peek()
            if t not in BINARY:
                break
            p = PREC[t]
            if p < min_prec:
                break
            take()
            right = expr(p if t in RIGHT else p + 1)
            left = ("bin", t, left, right)
        return left

    tree = expr(0)
    if pos != len(toks):
        raise ParseError("trailing tokens")
    return tree

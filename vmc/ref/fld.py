"""Reference model of the FuzzyLite Dataset grid (FldExporter.ScopeOfValues docs and the C18 statement).
No numpy, no fuzzylite."""

from __future__ import annotations

import itertools


def iroot(v: int, n: int) -> int:
    """Largest integer k with k**n <= v (integer arithmetic); at least 1."""
    k = 1
    while (k + 1) ** n <= v:
        k += 1
    return k


def grid(ranges: list[tuple[float, float]], v: int, scope: str) -> list[tuple[float, ...]]:
    n = len(ranges)
    k = iroot(v, n) if scope == "AllVariables" else max(1, v)
    axes = []
    for lo, hi in ranges:
        if k == 1:
            axes.append([lo])
        else:
            dx = (hi - lo) / (k - 1)
            axes.append([lo + j * dx for j in range(k)])
    return list(itertools.product(*axes))  # lexicographic, last input fastest


def fmt(x: float, decimals: int) -> str:
    if x != x:
        return "nan"
    if x in (float("inf"), float("-inf")):
        return "inf" if x > 0 else "-inf"
    return f"{x:.{decimals}f}"


def reader_rows(lines: list[str], skip: int) -> list[list[float]]:
    rows = []
    for i, line in enumerate(lines):
        if i < skip:
            continue
        s = line.strip()
        if not s or s[0] == "#":
            continue
        rows.append([float(t) for t in s.split()])
    return rows

"""Reference model of the lock-previous / default / lock-range cascade (docstring of OutputVariable.defuzzify and the
C12 statement).  Sequential semantics: a batch is the same as its rows processed one after another.
No numpy, no fuzzylite.
"""

from __future__ import annotations

import math

NAN = float("nan")


class Cascade:
    def __init__(self, lock_previous: bool, default: float, lock_range: bool, minimum: float, maximum: float) -> None:
        self.lock_previous = lock_previous
        self.default = default
        self.lock_range = lock_range
        self.minimum = minimum
        self.maximum = maximum
        self.value: list[float] = [NAN]  # rows of the last batch (a scalar is one row)
        self.previous: float = NAN
        self.enabled = True

    def clip(self, v: float) -> float:
        if not self.lock_range or v != v:
            return v
        return min(max(v, self.minimum), self.maximum)

    def defuzzify(self, rows: list[float]) -> None:
        """`rows` are the values returned by the defuzzifier for this call (not called on failure)."""
        if not self.enabled:
            return
        last = self.value[-1]
        self.previous = last
        out = []
        for v in rows:
            if v != v and self.lock_previous:
                v = last
            if v != v and not math.isnan(self.default):
                v = self.default
            v = self.clip(v)
            out.append(v)
            last = v
        self.value = out

    def clear(self) -> None:
        self.value = [NAN]
        self.previous = NAN

    def key(self):
        def k(x):
            return "nan" if x != x else x

        return (tuple(k(v) for v in self.value), k(self.previous), self.enabled)

    def copy(self) -> "Cascade":
        c = Cascade(self.lock_previous, self.default, self.lock_range, self.minimum, self.maximum)
        c.value = list(self.value)
        c.previous = self.previous
        c.enabled = self.enabled
        return c

"""Reference model of the documented rule grammar (class docs of Antecedent, Consequent, Rule in fuzzylite/rule.py):

    if variable is [hedge]* term [(and|or) variable is [hedge]* term]* then
       variable is [hedge]* term [and variable is [hedge]* term]* [with w]?

`any` closes a proposition without a term in the antecedent; `and` binds tighter than `or`, both left-associative,
parentheses (antecedent only) override.  AST, printers and a recursive-descent recogniser.  No numpy, no fuzzylite.

AST:  ("prop", var, (hedge, ...), term | None)   |   ("and" | "or", left, right)
"""

from __future__ import annotations

KEYWORDS = {"if", "then", "is", "and", "or", "with"}
HEDGES = ("any", "extremely", "not", "seldom", "somewhat", "very")
PREC = {"or": 1, "and": 2}


def prop(var: str, hedges=(), term: str | None = None):
    return ("prop", var, tuple(hedges), term)


def prop_text(p) -> str:
    _, var, hedges, term = p
    parts = [var, "is", *hedges]
    if term is not None:
        parts.append(term)
    return " ".join(parts)


def postfix(tree) -> str:
    if tree[0] == "prop":
        return prop_text(tree)
    return f"{postfix(tree[1])} {postfix(tree[2])} {tree[0]}"


def infix_flat(tree) -> str:
    """Infix without any parentheses (what Antecedent.infix() prints)."""
    if tree[0] == "prop":
        return prop_text(tree)
    return f"{infix_flat(tree[1])} {tree[0]} {infix_flat(tree[2])}"


def render(tree, style: str = "minimal") -> str:
    """Print the tree as antecedent text.

    styles: minimal (parentheses only where precedence/associativity require them), full (every operator node
    parenthesised), doubled (every operator node in double parentheses), tight (minimal, no spaces next to
    parentheses), props (minimal + every proposition parenthesised).
    """
    base = {"tight": "minimal", "props": "minimal"}.get(style, style)

    def go(t, parent: str | None, right: bool) -> str:
        if t[0] == "prop":
            s = prop_text(t)
            return f"( {s} )" if style == "props" else s
        op = t[0]
        s = f"{go(t[1], op, False)} {op} {go(t[2], op, True)}"
        if base == "full":
            return f"( {s} )"
        if base == "doubled":
            return f"( ( {s} ) )"
        if parent is not None:
            need = PREC[op] < PREC[parent] or (right and PREC[op] <= PREC[parent])
            if need:
                return f"( {s} )"
        return s

    text = go(tree, None, False)
    if style == "tight":
        text = text.replace("( ", "(").replace(" )", ")")
        # a keyword must stay separated from a neighbouring identifier but not from a parenthesis
        text = text.replace(") and (", ")and(").replace(") or (", ")or(")
    return text


def leaves(tree):
    if tree[0] == "prop":
        yield tree
    else:
        yield from leaves(tree[1])
        yield from leaves(tree[2])


def count_leaves(tree) -> int:
    return sum(1 for _ in leaves(tree))


def depth(tree) -> int:
    if tree[0] == "prop":
        return 1
    return 1 + max(depth(tree[1]), depth(tree[2]))


def conclusion_text(c) -> str:
    var, hedges, term = c
    return " ".join([var, "is", *hedges, term])


def rule_text(tree, conclusions, weight: str | None = None, style: str = "minimal") -> str:
    text = f"if {render(tree, style)} then " + " and ".join(conclusion_text(c) for c in conclusions)
    if weight is not None:
        text += f" with {weight}"
    return text


# ---------------------------------------------------------------------------------------------------------------------
# recogniser
# ---------------------------------------------------------------------------------------------------------------------
class Reject(Exception):
    """The token string is not a sentence of the documented grammar; `cls` names the error class."""

    def __init__(self, cls: str, message: str = "") -> None:
        super().__init__(message or cls)
        self.cls = cls


def tokenize(text: str) -> list[str]:
    return text.replace("(", " ( ").replace(")", " ) ").split()


def is_number(tok: str) -> bool:
    try:
        float(tok)
    except ValueError:
        return False
    return True


class Parser:
    """Recursive-descent recogniser of antecedents. `vocab` maps variable name -> set of term names."""

    def __init__(self, tokens: list[str], vocab: dict[str, set[str]]) -> None:
        self.t = tokens
        self.i = 0
        self.vocab = vocab

    def peek(self) -> str | None:
        return self.t[self.i] if self.i < len(self.t) else None

    def take(self) -> str:
        tok = self.peek()
        if tok is None:
            raise Reject("missing", "unexpected end")
        self.i += 1
        return tok

    def expr(self):  # or-level
        left = self.conj()
        while self.peek() == "or":
            self.take()
            left = ("or", left, self.conj())
        return left

    def conj(self):
        left = self.atom()
        while self.peek() == "and":
            self.take()
            left = ("and", left, self.atom())
        return left

    def atom(self):
        tok = self.peek()
        if tok is None:
            raise Reject("missing-operand")
        if tok == "(":
            self.take()
            inner = self.expr()
            if self.peek() != ")":
                raise Reject("unbalanced-parenthesis")
            self.take()
            return inner
        if tok == ")":
            raise Reject("unbalanced-parenthesis" if self.t.count("(") != self.t.count(")") else "missing-operand")
        if tok in ("and", "or"):
            raise Reject("missing-operand")
        return self.proposition(antecedent=True)

    def proposition(self, antecedent: bool):
        var = self.take()
        if var not in self.vocab:
            if var in KEYWORDS or var in ("(", ")"):
                raise Reject("missing-variable")
            raise Reject("unknown-name" if var not in HEDGES else "missing-variable")
        if self.peek() != "is":
            raise Reject("missing-keyword")
        self.take()
        hedges = []
        while self.peek() in HEDGES:
            h = self.take()
            hedges.append(h)
            if antecedent and h == "any":
                return prop(var, hedges, None)
        tok = self.peek()
        if tok is None or tok in KEYWORDS or tok in ("(", ")"):
            raise Reject("missing-term")
        self.take()
        if tok not in self.vocab[var]:
            raise Reject("unknown-name")
        return prop(var, hedges, tok)


def parse_antecedent(tokens: list[str], vocab: dict[str, set[str]]):
    if not tokens:
        raise Reject("missing-antecedent")
    p = Parser(tokens, vocab)
    tree = p.expr()
    if p.peek() is not None:
        if p.peek() == ")":
            raise Reject("unbalanced-parenthesis")
        raise Reject("trailing-token")
    return tree


def parse_consequent(tokens: list[str], out_vocab: dict[str, set[str]]):
    if not tokens:
        raise Reject("missing-consequent")
    p = Parser(tokens, out_vocab)
    out = [p.proposition(antecedent=False)]
    while p.peek() == "and":
        p.take()
        if p.peek() is None:
            raise Reject("missing-operand")
        out.append(p.proposition(antecedent=False))
    if p.peek() is not None:
        raise Reject("trailing-token")
    return [(c[1], c[2], c[3]) for c in out]


def parse_rule(text: str, vocab: dict[str, set[str]], out_vocab: dict[str, set[str]]):
    """Return (tree, conclusions, weight) or raise Reject(cls)."""
    hash_at = text.find("#")
    if hash_at != -1:
        text = text[:hash_at]
    toks = tokenize(text)
    if not toks or toks[0] != "if":
        raise Reject("missing-keyword", "if")
    if "then" not in toks:
        raise Reject("missing-keyword", "then")
    k = toks.index("then")
    ante = toks[1:k]
    rest = toks[k + 1:]
    weight = None
    if "with" in rest:
        w = rest.index("with")
        wt = rest[w + 1:]
        rest = rest[:w]
        if not wt:
            raise Reject("non-numeric-weight", "missing weight")
        if not is_number(wt[0]):
            raise Reject("non-numeric-weight")
        if len(wt) > 1:
            raise Reject("trailing-token")
        weight = float(wt[0])
    tree = parse_antecedent(ante, vocab)
    cons = parse_consequent(rest, out_vocab)
    return tree, cons, weight

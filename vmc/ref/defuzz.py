"""Reference decision procedures of the five integral defuzzifiers on a sampled fuzzy set (x_i, y_i)
(docstrings in fuzzylite/defuzzifier.py and the C09 statement).  No numpy, no fuzzylite.
"""

from __future__ import annotations

import math

NAN = float("nan")


def midpoints(start: float, end: float, resolution: int) -> list[float]:
    dx = (end - start) / resolution
    return [start + (i + 0.5) * dx for i in range(resolution)]


def centroid(x, y) -> float:
    sy = math.fsum(y)
    if sy == 0.0:
        return NAN
    return math.fsum(a * b for a, b in zip(x, y)) / sy


def bisector_ties(y):
    """Indices of the sample points minimising |cum_i/total - 1/2| (exact float ties, sequential sums)."""
    cum = []
    c = 0.0
    for v in y:
        c += v
        cum.append(c)
    total = cum[-1]
    if total == 0.0 or total != total:
        return [], NAN
    a = [abs(c / total - 0.5) for c in cum]
    m = min(a)
    idx = [i for i, v in enumerate(a) if v == m]
    rest = [v for v in a if v != m]
    margin = (min(rest) - m) if rest else math.inf
    return idx, margin


def bisector(x, y) -> float:
    idx, _ = bisector_ties(y)
    if not idx:
        return NAN
    return math.fsum(x[i] for i in idx) / len(idx)


def maxima(y):
    m = max(y)
    if not (m > 0.0):
        return []
    return [i for i, v in enumerate(y) if v == m]


def som(x, y) -> float:
    idx = maxima(y)
    return min(x[i] for i in idx) if idx else NAN


def lom(x, y) -> float:
    idx = maxima(y)
    return max(x[i] for i in idx) if idx else NAN


def mom(x, y) -> float:
    idx = maxima(y)
    return math.fsum(x[i] for i in idx) / len(idx) if idx else NAN


DEFUZZIFIERS = {
    "Bisector": bisector,
    "Centroid": centroid,
    "SmallestOfMaximum": som,
    "MeanOfMaximum": mom,
    "LargestOfMaximum": lom,
}

"""Reference model of the registered T-norms and S-norms: the `Note: Equation` of each class in fuzzylite/norm.py.

Two evaluators: `exact` on fractions.Fraction (all formulas are rational / min / max / case formulas) and `compute`
on plain floats with IEEE-754 semantics written out by hand (min/max propagate NaN, a comparison with NaN is false
and selects the `otherwise` branch, x/0 is +-inf or NaN).  NilpotentMaximum's docstring condition "a+b<0" is read as
"a+b<1" (the standard definition, the dual of NilpotentMinimum, and what makes it an S-norm at all).
No numpy, no fuzzylite.
"""

from __future__ import annotations

import math
from fractions import Fraction

NAN = float("nan")
INF = float("inf")

TNORMS = [
    "AlgebraicProduct",
    "BoundedDifference",
    "DrasticProduct",
    "EinsteinProduct",
    "HamacherProduct",
    "Minimum",
    "NilpotentMinimum",
]
SNORMS = [
    "AlgebraicSum",
    "BoundedSum",
    "DrasticSum",
    "EinsteinSum",
    "HamacherSum",
    "Maximum",
    "NilpotentMaximum",
    "NormalizedSum",
    "UnboundedSum",
]
DUAL = {
    "AlgebraicProduct": "AlgebraicSum",
    "BoundedDifference": "BoundedSum",
    "DrasticProduct": "DrasticSum",
    "EinsteinProduct": "EinsteinSum",
    "HamacherProduct": "HamacherSum",
    "Minimum": "Maximum",
    "NilpotentMinimum": "NilpotentMaximum",
}


def fmin(a, b):
    if a != a or b != b:
        return NAN
    return a if a <= b else b


def fmax(a, b):
    if a != a or b != b:
        return NAN
    return a if a >= b else b


def fdiv(x, y):
    if isinstance(x, Fraction):
        return x / y
    if y == 0:
        if x != x or x == 0:
            return NAN
        neg = (x < 0) != (math.copysign(1.0, y) < 0)
        return -INF if neg else INF
    return x / y


def formula(name: str, a, b):
    """The documented formula, generic over Fraction and float."""
    if name == "AlgebraicProduct":
        return a * b
    if name == "BoundedDifference":
        return fmax(0 * a if isinstance(a, Fraction) else 0.0, a + b - 1)
    if name == "DrasticProduct":
        return fmin(a, b) if fmax(a, b) == 1 else 0
    if name == "EinsteinProduct":
        return fdiv(a * b, 2 - (a + b - a * b))
    if name == "HamacherProduct":
        return fdiv(a * b, a + b - a * b) if (a + b) != 0 else 0
    if name == "Minimum":
        return fmin(a, b)
    if name == "NilpotentMinimum":
        return fmin(a, b) if a + b > 1 else 0
    if name == "AlgebraicSum":
        return a + b - a * b
    if name == "BoundedSum":
        return fmin(1, a + b)
    if name == "DrasticSum":
        return fmax(a, b) if fmin(a, b) == 0 else 1
    if name == "EinsteinSum":
        return fdiv(a + b, 1 + a * b)
    if name == "HamacherSum":
        return fdiv(a + b - 2 * a * b, 1 - a * b) if a * b != 1 else 1
    if name == "Maximum":
        return fmax(a, b)
    if name == "NilpotentMaximum":
        return fmax(a, b) if a + b < 1 else 1
    if name == "NormalizedSum":
        return fdiv(a + b, fmax(1, a + b))
    if name == "UnboundedSum":
        return a + b
    raise KeyError(name)


def exact(name: str, a: float, b: float) -> Fraction:
    return Fraction(formula(name, Fraction(a), Fraction(b)))


def compute(name: str, a: float, b: float) -> float:
    return float(formula(name, float(a), float(b)))

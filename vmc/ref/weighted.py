"""Reference model of the weighted defuzzifiers (docstrings of WeightedAverage / WeightedSum / infer_type /
Aggregated.grouped_terms and the C10 statement).  No numpy, no fuzzylite.

A term is described as  {"name": str, "kind": "ts" | "tsukamoto" | "inverse", "z": callable(w) -> float,
"tsukamoto": callable(w) -> float | None}.  Activations are (term name, degree) pairs in order.
"""

from __future__ import annotations

from . import hedges as H
from . import norms as N

NAN = float("nan")


class Refused(Exception):
    """The documented behaviour is an error of the named class."""

    def __init__(self, cls: str) -> None:
        super().__init__(cls)
        self.cls = cls


def grouped(acts, aggregation: str | None):
    """Group by term name in first-occurrence order, folding degrees with the aggregation (plain sum when none)."""
    agg = aggregation or "UnboundedSum"
    groups: dict[str, float] = {}
    for name, degree in acts:
        d = H.store_degree(degree)
        if name not in groups:
            groups[name] = d
        else:
            groups[name] = H.store_degree(N.compute(agg, groups[name], d))
    return groups


def infer(acts, terms) -> str:
    kinds = {terms[name]["kind"] for name, _ in acts}
    if len(kinds) == 1:
        return {"ts": "TakagiSugeno", "tsukamoto": "Tsukamoto", "inverse": "Automatic"}[kinds.pop()]
    if not kinds:
        return "Automatic"
    raise Refused("TypeError")


def defuzzify(which: str, type_: str, acts, aggregation: str | None, terms) -> float:
    this = infer(acts, terms) if type_ == "Automatic" else type_
    weighted = 0.0 if acts else NAN
    weights = 0.0
    for name, w in grouped(acts, aggregation).items():
        t = terms[name]
        if this == "Tsukamoto":
            if t["tsukamoto"] is None:
                raise Refused("RuntimeError")
            z = t["tsukamoto"](w)
        else:
            z = t["z"](w)
        # an activation with degree 0 never changes the result
        weighted = weighted + (w * z if w != 0.0 else 0.0)
        weights = weights + w
    if weights == 0.0:
        return NAN
    y = weighted / weights
    return y if which == "WeightedAverage" else y * weights

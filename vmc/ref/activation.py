"""Reference model of the seven activation methods (class docstrings in fuzzylite/activation.py + DESIGN 3.3).

Input: per rule its activation degree (weight x antecedent), whether it is loaded and whether it is enabled.
Output: per rule the stored degree and triggered flag, and the list of (rule index, degree) contributions in
trigger order.  Reading 3.3: selection is by degree over the *loaded* rules; a selected rule that is disabled
contributes nothing and is not marked triggered but does count toward n / Proportional's sum.
No numpy, no fuzzylite.
"""

from __future__ import annotations

import operator

COMPARATORS = {
    "<": operator.lt,
    "<=": operator.le,
    "==": operator.eq,
    "!=": operator.ne,
    ">=": operator.ge,
    ">": operator.gt,
}


def activate(method: str, params: tuple, degrees: list[float], loaded: list[bool], enabled: list[bool]):
    n = len(degrees)
    stored = [0.0] * n
    triggered = [False] * n
    contributions: list[tuple[int, float]] = []

    def trigger(k: int) -> None:
        if enabled[k]:
            contributions.append((k, stored[k]))
            triggered[k] = stored[k] > 0.0

    for k in range(n):
        if loaded[k]:
            stored[k] = degrees[k]

    if method == "General":
        for k in range(n):
            if loaded[k]:
                trigger(k)
    elif method in ("First", "Last"):
        count, threshold = params
        order = range(n) if method == "First" else range(n - 1, -1, -1)
        activated = 0
        for k in order:
            if loaded[k] and activated < count and stored[k] > 0.0 and stored[k] >= threshold:
                trigger(k)
                activated += 1
    elif method in ("Highest", "Lowest"):
        (count,) = params
        sign = -1.0 if method == "Highest" else 1.0
        cands = sorted((sign * stored[k], k) for k in range(n) if loaded[k] and stored[k] > 0.0)
        for _, k in cands[: max(0, count)]:
            trigger(k)
    elif method == "Proportional":
        cands = [k for k in range(n) if loaded[k] and stored[k] > 0.0]
        total = 0.0
        for k in cands:
            total += stored[k]
        for k in cands:
            stored[k] = stored[k] / total
            trigger(k)
    elif method == "Threshold":
        comparator, threshold = params
        for k in range(n):
            if loaded[k] and COMPARATORS[comparator](stored[k], threshold):
                trigger(k)
    else:
        raise KeyError(method)
    return stored, triggered, contributions

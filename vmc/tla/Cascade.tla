------------------------------ MODULE Cascade ------------------------------
(* The lock-previous / default / lock-range cascade of OutputVariable.defuzzify (property C12) over symbolic values.  *)
(* Checked by TLC for its own invariants; its complete labelled state graph is dumped and every edge is replayed on   *)
(* the real OutputVariable by vmc/checks/c12.py (thorough tier).  `op` records the action so that state matching      *)
(* cannot merge edges with different labels.                                                                        *)
CONSTANTS LockPrev, DefaultKind, LockRange      \* BOOLEAN, "none" | "in" | "out", BOOLEAN
VARIABLES value, previous, op

vars == <<value, previous, op>>
Raw == {"nan", "in1", "in2", "above", "below"}     \* what the defuzzifier may return: NaN, 0.25, 0.75, 2.0, -1.0
Def == IF DefaultKind = "in" THEN "defin" ELSE "defout"          \* 0.5 / 3.0

Clip(v) == IF ~LockRange THEN v
           ELSE CASE v = "above" -> "hi" [] v = "below" -> "lo" [] v = "defout" -> "hi" [] OTHER -> v

Cascade(v) == LET a == IF v = "nan" /\ LockPrev THEN value ELSE v
                  b == IF a = "nan" /\ DefaultKind # "none" THEN Def ELSE a
              IN Clip(b)

Init == value = "nan" /\ previous = "nan" /\ op = "init"

Defuzz(v) == value' = Cascade(v) /\ previous' = value /\ op' = v
Fail == UNCHANGED <<value, previous>> /\ op' = "fail"            \* the defuzzifier raises
Clear == value' = "nan" /\ previous' = "nan" /\ op' = "clear"

Next == (\E v \in Raw : Defuzz(v)) \/ Fail \/ Clear
Spec == Init /\ [][Next]_vars

InRange == LockRange => value \in {"nan", "in1", "in2", "lo", "hi", "defin"}
NoNaNWithDefault == (DefaultKind # "none" /\ op \in Raw) => value # "nan"
LockedNeverLosesValue == (LockPrev /\ op \in Raw /\ previous # "nan") => value # "nan"
PreviousIsOldValue == [][op' \in Raw => previous' = value]_vars
=============================================================================

"""Binding of the checks to the working tree of pyfuzzylite.

Every check imports `fl` from here.  The library is imported from $VERIF_REPO (default /repo) by putting
that directory first on sys.path, so an edit of the working tree is picked up without any build step.
"""

from __future__ import annotations

import math
import os
import sys

REPO = os.environ.get("VERIF_REPO", "/repo")
VERIF = os.path.dirname(os.path.dirname(os.path.abspath(__file__)))

if REPO not in sys.path:
    sys.path.insert(0, REPO)
os.environ.setdefault("FUZZYLITE_PYFUZZYLITE_VERIF", "1")

import logging  # noqa: E402
import warnings  # noqa: E402

import numpy as np  # noqa: E402

import fuzzylite as fl  # noqa: E402

_where = os.path.realpath(os.path.dirname(os.path.dirname(fl.__file__)))
if _where != os.path.realpath(REPO):
    raise SystemExit(f"BROKEN-CHECK: fuzzylite imported from {_where}, expected {REPO}")

fl.settings.logger.setLevel(logging.CRITICAL)
# numpy overflow/underflow warnings (exp of large arguments) are expected at +-1e6 / +-inf evaluation points
warnings.filterwarnings("ignore", category=RuntimeWarning)

# pristine values of the process-global settings singleton
PRISTINE = dict(
    float_type=np.float64,
    decimals=3,
    atol=1e-03,
    rtol=0.0,
    alias="fl",
)
_LOGGER = fl.settings.logger
_FACTORY = fl.settings.factory_manager


def reset_settings() -> None:
    """Restore the library settings to the values the library starts with."""
    s = fl.settings
    for k, v in PRISTINE.items():
        setattr(s, k, v)
    s.logger = _LOGGER
    s._factory_manager = _FACTORY


def seed_phase(seed: int) -> float:
    """Phase u in (0.05, 0.95) of the additional non-dyadic lattice selected by VERIF_SEED."""
    u = (seed * 0.6180339887498949 + 0.3141592653589793) % 1.0
    return 0.05 + 0.9 * u


def fnum(x) -> float | list:
    """Convert numpy scalars/arrays into plain floats / nested lists of floats."""
    a = np.asarray(x, dtype=float)
    if a.ndim == 0:
        return float(a)
    return a.tolist()


def jsonable(x):
    """Make a value JSON-serialisable (NaN/inf become strings)."""
    if isinstance(x, dict):
        return {str(k): jsonable(v) for k, v in x.items()}
    if isinstance(x, (list, tuple)):
        return [jsonable(v) for v in x]
    if isinstance(x, (np.ndarray,)):
        return jsonable(x.tolist())
    if isinstance(x, (np.floating, float)):
        x = float(x)
        if math.isnan(x):
            return "nan"
        if math.isinf(x):
            return "inf" if x > 0 else "-inf"
        return x
    if isinstance(x, (np.integer,)):
        return int(x)
    if isinstance(x, (np.bool_,)):
        return bool(x)
    if isinstance(x, (str, int, bool)) or x is None:
        return x
    return repr(x)


def unjson_float(x):
    """Inverse of jsonable for floats."""
    if isinstance(x, str):
        if x in ("nan", "inf", "-inf"):
            return float(x)
        return x
    if isinstance(x, list):
        return [unjson_float(v) for v in x]
    if isinstance(x, dict):
        return {k: unjson_float(v) for k, v in x.items()}
    if isinstance(x, int) and not isinstance(x, bool):
        return x
    return x

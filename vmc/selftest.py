"""Self-test of the reference models against hand-computed values taken from the library's documentation.

    ./check --selftest

The reference models are a second implementation of the documented behaviour; this file pins them to values that can
be verified with pencil and paper, independently of the library (nothing here imports fuzzylite or numpy).
"""

from __future__ import annotations

import math
import sys
from fractions import Fraction

from .ref import activation, cascade, defuzz, fld, formula, hedges, norms, rulegrammar, terms, weighted

FAILS: list[str] = []


def eq(label: str, got, want, tol: float = 1e-12) -> None:
    ok = (got == want) or (
        isinstance(got, float) and isinstance(want, (int, float))
        and ((got != got and want != want) or abs(got - want) <= tol)
    )
    if not ok:
        FAILS.append(f"{label}: got {got!r}, want {want!r}")


def main() -> int:
    nan, inf = float("nan"), float("inf")
    # --- norms (docstring equations) ---
    eq("AlgebraicProduct", norms.compute("AlgebraicProduct", 0.5, 0.25), 0.125)
    eq("BoundedDifference", norms.compute("BoundedDifference", 0.75, 0.5), 0.25)
    eq("DrasticProduct 1", norms.compute("DrasticProduct", 1.0, 0.25), 0.25)
    eq("DrasticProduct 0", norms.compute("DrasticProduct", 0.75, 0.25), 0.0)
    eq("EinsteinProduct", norms.exact("EinsteinProduct", 0.5, 0.5), Fraction(1, 5))
    eq("HamacherProduct", norms.exact("HamacherProduct", 0.5, 0.5), Fraction(1, 3))
    eq("HamacherProduct 0,0", norms.compute("HamacherProduct", 0.0, 0.0), 0.0)
    eq("NilpotentMinimum =1", norms.compute("NilpotentMinimum", 0.5, 0.5), 0.0)
    eq("NilpotentMinimum >1", norms.compute("NilpotentMinimum", 0.75, 0.5), 0.5)
    eq("AlgebraicSum", norms.compute("AlgebraicSum", 0.5, 0.25), 0.625)
    eq("BoundedSum", norms.compute("BoundedSum", 0.75, 0.5), 1.0)
    eq("DrasticSum", norms.compute("DrasticSum", 0.0, 0.25), 0.25)
    eq("DrasticSum 1", norms.compute("DrasticSum", 0.5, 0.25), 1.0)
    eq("EinsteinSum", norms.exact("EinsteinSum", 0.5, 0.5), Fraction(4, 5))
    eq("HamacherSum", norms.exact("HamacherSum", 0.5, 0.5), Fraction(2, 3))
    eq("NilpotentMaximum <1", norms.compute("NilpotentMaximum", 0.25, 0.5), 0.5)
    eq("NilpotentMaximum =1", norms.compute("NilpotentMaximum", 0.5, 0.5), 1.0)
    eq("NormalizedSum", norms.compute("NormalizedSum", 0.75, 0.75), 1.0)
    eq("UnboundedSum", norms.compute("UnboundedSum", 0.75, 0.75), 1.5)
    eq("Minimum nan", norms.compute("Minimum", nan, 0.5), nan)
    # --- hedges ---
    eq("very", hedges.h_very(0.5), 0.25)
    eq("somewhat", hedges.h_somewhat(0.25), 0.5)
    eq("extremely lo", hedges.h_extremely(0.25), 0.125)
    eq("extremely hi", hedges.h_extremely(0.75), 0.875)
    eq("seldom lo", hedges.h_seldom(0.5), 0.5)
    eq("seldom hi", hedges.h_seldom(0.875), 0.75)
    eq("not", hedges.h_not(0.25), 0.75)
    eq("any", hedges.h_any(nan), 1.0)
    eq("chain not very", hedges.apply_chain(("not", "very"), 0.5), 0.75)
    eq("chain very not", hedges.apply_chain(("very", "not"), 0.5), 0.25)
    eq("store nan", hedges.store_degree(nan), 0.0)
    eq("store +inf", hedges.store_degree(inf), 1.0)
    eq("store -inf", hedges.store_degree(-inf), 0.0)
    # --- terms ---
    eq("Triangle", terms.membership("Triangle", [0.0, 0.5, 1.0], 0.5, 0.25), 0.25)
    eq("Triangle shoulder", terms.membership("Triangle", [-inf, 0.5, 1.0], 1.0, -5.0), 1.0)
    eq("Trapezoid", terms.membership("Trapezoid", [0.0, 0.25, 0.5, 1.0], 1.0, 0.75), 0.5)
    eq("Rectangle edge", terms.membership("Rectangle", [1.0, 0.0], 1.0, 1.0), 1.0)
    eq("Ramp down", terms.membership("Ramp", [1.0, 0.0], 1.0, 0.25), 0.75)
    eq("Arc end", terms.membership("Arc", [0.0, 1.0], 0.5, 1.0), 0.5)
    eq("Arc mid", terms.membership("Arc", [0.0, 1.0], 1.0, 0.5), math.sqrt(0.75))
    eq("SemiEllipse centre", terms.membership("SemiEllipse", [0.0, 1.0], 1.0, 0.5), 1.0)
    eq("SemiEllipse end", terms.membership("SemiEllipse", [0.0, 1.0], 1.0, 1.0), 0.0)
    eq("SShape mid", terms.membership("SShape", [0.0, 1.0], 1.0, 0.5), 0.5)
    eq("ZShape quarter", terms.membership("ZShape", [0.0, 1.0], 1.0, 0.25), 0.875)
    eq("Concave", terms.membership("Concave", [0.25, 0.75], 1.0, 0.25), 0.5)
    eq("Sigmoid inflection", terms.membership("Sigmoid", [0.5, 8.0], 1.0, 0.5), 0.5)
    eq("Gaussian mean", terms.membership("Gaussian", [0.5, 0.25], 0.7, 0.5), 0.7)
    eq("Bell", terms.membership("Bell", [0.5, 0.25, 2.0], 1.0, 0.75), 0.5)
    eq("Cosine edge", terms.membership("Cosine", [0.5, 0.5], 1.0, 0.75), 0.0)
    eq("Spike", terms.membership("Spike", [0.5, 1.0], 1.0, 0.6), math.exp(-1.0), 1e-12)
    eq("Binary", terms.membership("Binary", [0.5, inf], 1.0, 0.5), 1.0)
    eq("Discrete", terms.membership("Discrete", [0.0, 0.0, 1.0, 1.0], 0.5, 0.5), 0.25)
    eq("Discrete outside", terms.membership("Discrete", [0.0, 1.0, 1.0, 0.0], 1.0, -3.0), 1.0)
    eq("nan in", terms.membership("Triangle", [0.0, 0.5, 1.0], 1.0, nan), nan)
    eq("tsukamoto Ramp", terms.tsukamoto("Ramp", [0.0, 2.0], 0.5, 0.25), 1.0)
    eq("tsukamoto SShape", terms.tsukamoto("SShape", [0.0, 1.0], 1.0, 0.5), 0.5)
    eq("tsukamoto Sigmoid", terms.tsukamoto("Sigmoid", [0.5, 8.0], 1.0, 0.5), 0.5)
    eq("tsukamoto Concave", terms.tsukamoto("Concave", [0.25, 0.75], 1.0, 0.5), 0.25)
    eq("tsukamoto Arc", terms.tsukamoto("Arc", [0.0, 1.0], 1.0, 1.0), 1.0)
    # --- defuzzifiers on a sampled set ---
    x, y = [0.125, 0.375, 0.625, 0.875], [0.0, 0.5, 0.5, 0.25]
    eq("centroid", defuzz.centroid(x, y), (0.375 * 0.5 + 0.625 * 0.5 + 0.875 * 0.25) / 1.25)
    eq("som", defuzz.som(x, y), 0.375)
    eq("mom", defuzz.mom(x, y), 0.5)
    eq("lom", defuzz.lom(x, y), 0.625)
    eq("bisector", defuzz.bisector(x, [0.5, 0.5, 0.5, 0.5]), 0.375)
    eq("bisector tie", defuzz.bisector(x, [0.5, 0.0, 0.0, 0.5]), (0.125 + 0.375 + 0.625) / 3)
    eq("all zero", defuzz.mom(x, [0.0] * 4), nan)
    eq("midpoints", defuzz.midpoints(2.0, 6.0, 4), [2.5, 3.5, 4.5, 5.5])
    # --- weighted ---
    T = {"k1": {"kind": "ts", "z": lambda w: 1.5, "tsukamoto": None}, "k2": {"kind": "ts", "z": lambda w: -2.0, "tsukamoto": None},
         "r": {"kind": "tsukamoto", "z": lambda w: w, "tsukamoto": lambda w: 2.0 * w}}
    eq("grouped sum", weighted.grouped([("k1", 0.5), ("k2", 0.25), ("k1", 0.75)], None), {"k1": 1.25, "k2": 0.25})
    eq("grouped max", weighted.grouped([("k1", 0.5), ("k1", 0.75)], "Maximum"), {"k1": 0.75})
    eq("average", weighted.defuzzify("WeightedAverage", "Automatic", [("k1", 0.5), ("k2", 0.5)], None, T), -0.25)
    eq("sum", weighted.defuzzify("WeightedSum", "Automatic", [("k1", 0.5), ("k2", 0.25)], None, T), 0.25)
    eq("tsukamoto avg", weighted.defuzzify("WeightedAverage", "Automatic", [("r", 0.5)], None, T), 1.0)
    eq("no weight", weighted.defuzzify("WeightedSum", "Automatic", [("k1", 0.0)], None, T), nan)
    try:
        weighted.defuzzify("WeightedAverage", "Automatic", [("k1", 0.5), ("r", 0.5)], None, T)
        FAILS.append("mixed kinds must be refused")
    except weighted.Refused as r:
        eq("mixed", r.cls, "TypeError")
    # --- cascade ---
    c = cascade.Cascade(True, 0.5, True, 0.0, 1.0)
    c.defuzzify([nan])
    eq("cascade default", c.value, [0.5])
    c.defuzzify([2.0, nan])
    eq("cascade clip+lock", (c.value, c.previous), ([1.0, 1.0], 0.5))
    c.clear()
    eq("cascade clear", (c.value[0] != c.value[0], c.previous != c.previous), (True, True))
    # --- activation ---
    st, tr, co = activation.activate("Highest", (2,), [0.25, 0.5, 0.5, 0.0], [True] * 4, [True] * 4)
    eq("highest ties", [k for k, _ in co], [1, 2])
    st, tr, co = activation.activate("First", (1, 0.3), [0.25, 0.5, 0.75], [True] * 3, [True, False, True])
    eq("first counts disabled", (co, tr), ([], [False, False, False]))
    st, tr, co = activation.activate("Proportional", (), [0.25, 0.75, 0.0], [True] * 3, [True] * 3)
    eq("proportional", st, [0.25, 0.75, 0.0])
    st, tr, co = activation.activate("Threshold", ("<=", 0.25), [0.25, 0.5, 0.0], [True] * 3, [True] * 3)
    eq("threshold", ([k for k, _ in co], tr), ([0, 2], [True, False, False]))
    # --- rule grammar ---
    P = rulegrammar.prop
    t = ("or", ("and", P("a", (), "t"), P("b", ("very",), "u")), P("a", ("any",), None))
    eq("render minimal", rulegrammar.render(t), "a is t and b is very u or a is any")
    t2 = ("and", P("a", (), "t"), ("or", P("b", (), "u"), P("a", (), "t")))
    eq("render parens", rulegrammar.render(t2), "a is t and ( b is u or a is t )")
    eq("postfix", rulegrammar.postfix(t2), "a is t b is u a is t or and")
    vocab = {"a": {"t"}, "b": {"u"}}
    eq("parse back", rulegrammar.parse_antecedent(rulegrammar.tokenize("(a is t)and(b is u or a is t)"), vocab), t2)
    for bad, cls in (("a is", "missing-term"), ("a t", "missing-keyword"), ("a is t and", "missing-operand"),
                     ("( a is t", "unbalanced-parenthesis"), ("zz is t", "unknown-name"), ("a is t b is u", "trailing-token")):
        try:
            rulegrammar.parse_antecedent(rulegrammar.tokenize(bad), vocab)
            FAILS.append(f"recogniser accepts {bad!r}")
        except rulegrammar.Reject as r:
            eq(f"reject {bad!r}", r.cls, cls)
    # --- formulas ---
    env = {"x": 2.0, "y": 3.0}
    for toks, want in ((["x", "+", "y", "*", "2.000"], 8.0), (["x", "^", "y", "^", "2.000"], 512.0), ([".-", "x", "^", "2.000"], -4.0),
                       (["~", "x", "^", "2.000"], 4.0), (["x", "-", "y", "-", "1.000"], -2.0), ([".-", "7.000", "%", "3.000"], 2.0),
                       (["fmod", "(", ".-", "7.000", ",", "3.000", ")"], -1.0), (["x", "and", "0.000", "or", "y"], 1.0),
                       (["gt", "(", "x", ",", "y", ")", "+", "le", "(", "x", ",", "y", ")"], 1.0), (["round", "(", "2.500", ")"], 2.0)):
        tree = formula.parse(toks)
        eq("formula " + " ".join(toks), formula.evaluate(tree, env), want)
        eq("rpn " + " ".join(toks), formula.evaluate_rpn(formula.postfix(tree), env), want)
        eq("reparse " + " ".join(toks), formula.parse(formula.tokens(tree, "minimal")), tree)
        eq("reparse full " + " ".join(toks), formula.parse(formula.tokens(tree, "full")), tree)
    eq("minimal parens", formula.render(("bin", "^", ("un", ".-", ("var", "x")), ("num", "2.000"))), "( .- x ) ^ 2.000")
    eq("unary under unary", formula.render(("un", "~", ("un", ".-", ("var", "x")))), "~ ( .- x )")
    # --- fld ---
    eq("iroot 64/3", fld.iroot(64, 3), 4)
    eq("iroot 63/3", fld.iroot(63, 3), 3)
    eq("grid order", fld.grid([(0.0, 1.0), (2.0, 6.0)], 4, "AllVariables"), [(0.0, 2.0), (0.0, 6.0), (1.0, 2.0), (1.0, 6.0)])
    eq("reader rows", fld.reader_rows(["# c", "", " 1 2", "3 4"], 1), [[1.0, 2.0], [3.0, 4.0]])
    if FAILS:
        print("SELFTEST FAILED")
        for f in FAILS:
            print("  " + f)
        return 1
    print("selftest ok: reference models agree with the hand-computed values")
    return 0


if __name__ == "__main__":
    sys.exit(main())

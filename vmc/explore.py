"""Shared exploration bookkeeping: the per-shard accumulator and deterministic sharding helpers.

The enumerators themselves are plain Python generators inside each check (itertools.product for K1, explicit BFS for
K2, recursive tree generators for K3, deviation generators for K4).  What is shared is how a shard records what it
covered and what it found, so that every check reports the same evidence.
"""

from __future__ import annotations

import collections
import itertools
import json

from .lib import jsonable

MAX_PER_SIG = 3  # violations kept (with their full case) per signature and shard


class Acc:
    """Accumulator of one shard."""

    def __init__(self, prop: str) -> None:
        self.prop = prop
        self.evals = 0
        self.nontrivial_keys: set = set()
        self.states = 0
        self.transitions = 0
        self.traces = 0
        self.classes: collections.Counter = collections.Counter()
        self.samples: list = []
        self.violations: list[dict] = []
        self.sig_counts: collections.Counter = collections.Counter()
        self.extra: collections.Counter = collections.Counter()
        self.capped = False

    # -- coverage ---------------------------------------------------------------------------------------------
    def case(self, key=None, nontrivial: bool = False, n: int = 1) -> None:
        """Record n executed cases; key identifies the case for the distinct-non-trivial count."""
        self.evals += n
        if nontrivial:
            # repr() first: NaN floats hash by identity, their repr does not
            self.nontrivial_keys.add(hash(repr(key)) if key is not None else -self.evals)

    def cls(self, name: str, n: int = 1) -> None:
        self.classes[name] += n

    def sample(self, obj, limit: int = 2) -> None:
        if len(self.samples) < limit:
            self.samples.append(jsonable(obj))

    # -- findings ---------------------------------------------------------------------------------------------
    def violate(self, kind: str, sig: dict, case: dict, expected=None, actual=None, message: str = "") -> None:
        """Record a violation. `sig` is the specific signature used for known-finding matching."""
        sig = dict(sig)
        sig["kind"] = kind
        sig_key = json.dumps(jsonable(sig), sort_keys=True)
        self.sig_counts[sig_key] += 1
        if self.sig_counts[sig_key] <= MAX_PER_SIG:
            self.violations.append(
                {
                    "property": self.prop,
                    "sig": jsonable(sig),
                    "case": jsonable(case),
                    "expected": jsonable(expected),
                    "actual": jsonable(actual),
                    "message": message,
                }
            )

    def guard(self, case: dict, fn, *args, **kwargs) -> bool:
        """Run one case; an exception escaping from it is a violation of the property (the implementation raised
        where the reference model defines a result), not a crash of the check."""
        try:
            fn(*args, **kwargs)
            return True
        except Exception as ex:  # noqa: BLE001
            import traceback

            tb = traceback.extract_tb(ex.__traceback__)
            where = next((f"{f.filename.split('/')[-1]}:{f.name}" for f in reversed(tb) if "/fuzzylite/" in f.filename),
                         f"{tb[-1].filename.split('/')[-1]}:{tb[-1].name}")
            self.evals += 1
            self.violate("exception", {"type": type(ex).__name__, "where": where}, case, "no exception",
                         f"{type(ex).__name__}: {ex}", f"unexpected {type(ex).__name__} in {where}: {str(ex)[:200]}")
            return False

    def result(self) -> dict:
        return {
            "evals": self.evals,
            "nontrivial": len(self.nontrivial_keys),
            "states": self.states,
            "transitions": self.transitions,
            "traces": self.traces,
            "classes": dict(self.classes),
            "samples": self.samples,
            "violations": self.violations,
            "sig_counts": dict(self.sig_counts),
            "extra": dict(self.extra),
            "capped": self.capped,
        }


def merge(results: list[dict]) -> dict:
    out = {
        "evals": 0,
        "nontrivial": 0,
        "states": 0,
        "transitions": 0,
        "traces": 0,
        "classes": collections.Counter(),
        "samples": [],
        "violations": [],
        "sig_counts": collections.Counter(),
        "extra": collections.Counter(),
        "capped": False,
        "shards": len(results),
    }
    for r in results:
        for k in ("evals", "nontrivial", "states", "transitions", "traces"):
            out[k] += r[k]
        out["classes"].update(r["classes"])
        out["sig_counts"].update(r["sig_counts"])
        out["extra"].update(r["extra"])
        if len(out["samples"]) < 4:
            out["samples"].extend(r["samples"][: 4 - len(out["samples"])])
        out["violations"].extend(r["violations"])
        out["capped"] = out["capped"] or r["capped"]
    return out


def shard_slice(iterable, index: int, count: int):
    """Deterministic partition of an enumeration: element k belongs to shard k mod count."""
    return itertools.islice(iterable, index, None, count)


def compositions(n: int):
    """All ordered splits of n into positive parts (2^(n-1) of them)."""
    if n == 0:
        yield ()
        return
    for first in range(1, n + 1):
        for rest in compositions(n - first):
            yield (first,) + rest

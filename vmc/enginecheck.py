"""Driver shared by the engine-level checks: run one Engine.process() on the real engine and on the reference
pipeline and compare everything observable (rule degrees, triggered flags, fuzzy outputs, sampled memberships,
output values)."""

from __future__ import annotations

import math

import numpy as np

from .explore import Acc
from .lib import fl
from .oracle import close, same
from .ref import defuzz as RD
from .ref.pipeline import MissingOperator, Pipeline


def set_inputs(engine, row) -> None:
    for iv, x in zip(engine.input_variables, row):
        iv.value = x


def observe_fuzzy(engine) -> dict:
    out = {}
    for ov in engine.output_variables:
        out[ov.name] = [
            (a.term.name, float(np.asarray(a.degree, dtype=float)), type(a.implication).__name__ if a.implication else None)
            for a in ov.fuzzy.terms
        ]
    return out


def sampled_vectors(engine) -> dict:
    """(xs, ys) of every enabled output with an integral defuzzifier, taken from the implementation."""
    sampled = {}
    for ov in engine.output_variables:
        d = ov.defuzzifier
        if ov.enabled and isinstance(d, fl.IntegralDefuzzifier):
            xs = [float(v) for v in fl.Op.midpoints(ov.minimum, ov.maximum, d.resolution)]
            if ov.fuzzy.terms:
                ys = [float(v) for v in np.atleast_1d(ov.fuzzy.membership(np.array(xs)))]
            else:
                ys = [0.0] * len(xs)
            sampled[ov.name] = (xs, ys)
    return sampled


def previous_is_old_value(acc: Acc, case: dict, engine, held, row, sig_extra) -> bool:
    """One process() call defuzzifies every enabled output exactly once: its recorded previous value is the value it held
    before the call; a disabled output keeps value and previous value."""
    for ov, (value, previous) in zip(engine.output_variables, held):
        want = value if ov.enabled else previous
        last = np.atleast_1d(np.asarray(want, dtype=float))[-1]
        got = np.asarray(ov.previous_value, dtype=float)
        unchanged = ov.enabled or fl.Op.str(ov.value) == fl.Op.str(value)
        if np.size(got) != 1 or not same(float(got), float(last)) or not unchanged:
            acc.violate("previous-value", {"enabled": bool(ov.enabled), **sig_extra}, case, fl.Op.str(last), fl.Op.str(ov.previous_value),
                        f"after process() at {row} output {ov.name} records previous value {ov.previous_value!r}; it held {want!r} before the call")
            return False
    return True


def compare_step(acc: Acc, case: dict, engine, recipe: dict, pipe: Pipeline, row, sig_extra: dict | None = None) -> bool:
    """Process one row of Python floats on both sides. Returns True when everything agreed."""
    sig_extra = sig_extra or {}
    inputs = {v["name"]: x for v, x in zip(recipe["inputs"], row)}
    set_inputs(engine, row)
    acc.transitions += 1
    held = [(ov.value, ov.previous_value) for ov in engine.output_variables]
    try:
        engine.process()
    except Exception as ex:  # noqa: BLE001
        try:
            pipe.step(inputs)
            want = "a result"
        except MissingOperator as m:
            want = f"ValueError ({m})"
            if isinstance(ex, ValueError):
                acc.cls("missing_operator_raises")
                return True
        acc.violate("process-raises", {"type": type(ex).__name__, **sig_extra}, case, want, f"{type(ex).__name__}: {ex}",
                    f"Engine.process() raised {type(ex).__name__}: {str(ex)[:120]} at {row}")
        return False
    if not previous_is_old_value(acc, case, engine, held, row, sig_extra):
        return False
    if not any(o.get("lock_previous") for o in recipe["outputs"]) and not any(t["cls"] == "Function" for o in recipe["outputs"] for t in o["terms"]):
        first = [fl.Op.str(ov.value) for ov in engine.output_variables]
        first_f = observe_fuzzy(engine)
        held = [(ov.value, ov.previous_value) for ov in engine.output_variables]
        engine.process()
        acc.transitions += 1
        if not previous_is_old_value(acc, case, engine, held, row, sig_extra):
            return False
        if [fl.Op.str(ov.value) for ov in engine.output_variables] != first or observe_fuzzy(engine) != first_f:
            acc.violate("not-repeatable", {**sig_extra}, case, first, [fl.Op.str(ov.value) for ov in engine.output_variables],
                        f"processing the same inputs {row} twice gives different outputs or fuzzy outputs")
            return False
    sampled = sampled_vectors(engine)
    trace = pipe.step(inputs, sampled)
    acc.traces += 1
    acc.last_trace = trace
    ok = True
    # rule degrees and triggered flags
    for b, rb in zip(recipe["blocks"], engine.rule_blocks):
        if not b.get("enabled", True):
            continue
        want_d = trace["degrees"][b["name"]]
        want_t = trace["triggered"][b["name"]]
        got_d = [float(np.asarray(r.activation_degree, dtype=float)) for r in rb.rules]
        got_t = [bool(r.triggered) for r in rb.rules]
        if not all(close(g, w, 1e-12, 1e-9) for g, w in zip(got_d, want_d)):
            acc.violate("rule-degree", {"block": b["activation"][0], **sig_extra}, case, want_d, got_d,
                        f"rule degrees {got_d} != weight x antecedent {want_d} at {row}")
            ok = False
        elif got_t != want_t:
            acc.violate("rule-triggered", {"block": b["activation"][0], **sig_extra}, case, want_t, got_t,
                        f"triggered flags {got_t} != {want_t} at {row}")
            ok = False
    # fuzzy outputs
    got_f = observe_fuzzy(engine)
    for name, want in trace["fuzzy"].items():
        got = got_f[name]
        same_len = len(got) == len(want)
        if not same_len or any(g[0] != w[0] or g[2] != w[2] or not close(g[1], w[1], 1e-12, 1e-9) for g, w in zip(got, want)):
            acc.violate("fuzzy-output", {"same_length": same_len, **sig_extra}, case, want, got,
                        f"fuzzy output of {name} is {got}, the pipeline gives {want} at {row}")
            ok = False
    if not ok:
        return False
    # sampled aggregated membership against the reference membership of the reference activations
    for name, (xs, ys) in sampled.items():
        stride = max(1, len(xs) // 24)
        idx = list(range(0, len(xs), stride))
        want_y = pipe.sample_membership(name, trace["fuzzy"][name], inputs, [xs[i] for i in idx])
        for i, w in zip(idx, want_y):
            if not close(ys[i], w, 1e-12, 1e-9):
                acc.violate("aggregated-membership", {**sig_extra}, {**case, "x": xs[i]}, w, ys[i],
                            f"aggregated membership of {name} at x={xs[i]} is {ys[i]!r}, the pipeline gives {w!r} (row {row})")
                return False
        o = pipe.outs[name]
        want_x = RD.midpoints(o["min"], o["max"], len(xs))
        if any(abs(a - b) > 4 * math.ulp(max(abs(o["min"]), abs(o["max"]), 1.0)) for a, b in zip(xs, want_x)):
            acc.violate("midpoints", {}, case, want_x[:3], xs[:3], "sample points differ from the midpoint rule")
            return False
    # output values
    for ov in engine.output_variables:
        got = float(np.asarray(ov.value, dtype=float)) if np.size(ov.value) == 1 else NAN
        want = trace["values"][ov.name]
        if np.size(ov.value) != 1 or not close(got, want, 1e-9, 1e-9):
            acc.violate("output-value", {"defuzzifier": (pipe.outs[ov.name].get("defuzzifier") or ["none"])[0], **sig_extra},
                        case, want, fl.Op.str(ov.value), f"output {ov.name} = {ov.value!r}, the pipeline gives {want!r} at {row}")
            return False
    return True


NAN = float("nan")


def nontrivial(trace_degrees: dict, values: dict) -> bool:
    fired = any(0.0 < d < 1.0 for ds in trace_degrees.values() for d in ds if d == d)
    return fired and any(math.isfinite(v) for v in values.values())
